package sim

import (
	"encoding/hex"
	"fmt"
	"sort"

	mwdb "massnet.org/mass-wallet/masswallet/db"
)

// RawEntry is one key/value pair of the wallet database with its bucket path.
type RawEntry struct {
	Bucket string
	Key    []byte
	Value  []byte
}

// DumpDB reads every bucket of the wallet database through the public db API
// (ungated: call it from the root goroutine at a quiescent point).
//
//go:norace
func DumpDB(db mwdb.DB) ([]RawEntry, error) {
	var out []RawEntry
	err := mwdb.View(db, func(tx mwdb.ReadTransaction) error {
		names, err := tx.BucketNames()
		if err != nil {
			return err
		}
		sort.Strings(names)
		var walk func(path string, b mwdb.Bucket) error
		walk = func(path string, b mwdb.Bucket) error {
			es, err := b.GetByPrefix(nil)
			if err != nil {
				return err
			}
			for _, e := range es {
				out = append(out, RawEntry{Bucket: path, Key: e.Key, Value: e.Value})
			}
			subs, err := b.BucketNames()
			if err != nil {
				return err
			}
			sort.Strings(subs)
			for _, s := range subs {
				sb := b.Bucket(s)
				if sb == nil {
					return fmt.Errorf("listed sub bucket %s/%s missing", path, s)
				}
				if err := walk(path+"/"+s, sb); err != nil {
					return err
				}
			}
			return nil
		}
		for _, n := range names {
			b := tx.TopLevelBucket(n)
			if b == nil {
				return fmt.Errorf("listed bucket %s missing", n)
			}
			if err := walk(n, b); err != nil {
				return err
			}
		}
		return nil
	})
	return out, err
}

//go:norace
func (e RawEntry) String() string {
	return fmt.Sprintf("%s %s = %s", e.Bucket, hex.EncodeToString(e.Key), hex.EncodeToString(e.Value))
}
