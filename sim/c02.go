package sim

// C02 (transaction building) and C03 (signing) checks.

import (
	"bytes"
	"encoding/hex"
	"errors"
	"fmt"
	"sort"
	"time"

	"github.com/massnetorg/mass-core/blockchain"
	"github.com/massnetorg/mass-core/consensus"
	"github.com/massnetorg/mass-core/massutil"
	"github.com/massnetorg/mass-core/txscript"
	"github.com/massnetorg/mass-core/wire"
	"massnet.org/mass-wallet/masswallet"
	"massnet.org/mass-wallet/masswallet/keystore"
)

//go:norace
func init() {
	Runners["C02"] = func(w *World, p map[string]int) { runSpend(w, p, "C02") }
	Runners["C03"] = func(w *World, p map[string]int) { runSpend(w, p, "C03") }
}

// spendCtx is the reference state for building/signing with one wallet at a
// quiescent, fully synced point.
type spendCtx struct {
	w         *World
	inst      *Instance
	ws        *WalletState
	l         *Ledger
	addrOf    map[[32]byte]string
	hashOf    map[string][32]byte
	pendSpent map[wire.OutPoint]bool // wallet coins spent by a pending transaction
	reserved  map[wire.OutPoint]time.Time
}

//go:norace
func newSpendCtx(w *World, inst *Instance, ws *WalletState, reserved map[wire.OutPoint]time.Time, class string) *spendCtx {
	l := w.CheckWallet(inst, ws, class)
	if l == nil || len(w.Violations) > 0 {
		return nil
	}
	c := &spendCtx{w: w, inst: inst, ws: ws, l: l, addrOf: map[[32]byte]string{}, hashOf: map[string][32]byte{}, pendSpent: map[wire.OutPoint]bool{}, reserved: reserved}
	for _, ia := range ws.Issued {
		var h [32]byte
		copy(h[:], ws.HD.Addr(ia.Index).ScriptHash)
		s := w.Gen.addrString(h)
		c.addrOf[h] = s
		c.hashOf[s] = h
	}
	pend, ok := w.PendingSet(inst)
	if !ok {
		return nil
	}
	for _, tx := range pend {
		for _, in := range tx.TxIn {
			c.pendSpent[in.PreviousOutPoint] = true
		}
	}
	return c
}

// isReserved: the draft that reserved op is certainly still outstanding.
//
//go:norace
func (c *spendCtx) isReserved(op wire.OutPoint) bool {
	exp, ok := c.reserved[op]
	return ok && time.Now().Before(exp)
}

// maybeReserved also counts the exact expiry instant (the boundary is not
// specified, so neither answer is demanded there).
//
//go:norace
func (c *spendCtx) maybeReserved(op wire.OutPoint) bool {
	exp, ok := c.reserved[op]
	return ok && !time.Now().After(exp)
}

// eligible lists the coins automatic selection may use (optionally only those
// of one address), largest first.
//
//go:norace
func (c *spendCtx) eligible(from string) []*Coin {
	var out []*Coin
	for _, coin := range c.l.Coins {
		if coin.Class != ClassStd || !coin.SpendableAt(c.l.Tip) || c.pendSpent[coin.Op] || c.maybeReserved(coin.Op) || coin.Amount <= 0 {
			continue
		}
		if from != "" && c.addrOf[coin.Holder] != from {
			continue
		}
		out = append(out, coin)
	}
	sort.Slice(out, func(i, j int) bool {
		if out[i].Amount != out[j].Amount {
			return out[i].Amount > out[j].Amount
		}
		return out[i].Op.String() < out[j].Op.String()
	})
	return out
}

//go:norace
func decodeTxHex(s string) (*wire.MsgTx, error) {
	raw, err := hex.DecodeString(s)
	if err != nil {
		return nil, err
	}
	var tx wire.MsgTx
	if err := tx.SetBytes(raw, wire.Packet); err != nil {
		return nil, err
	}
	return &tx, nil
}

type wantOut struct {
	pk     []byte
	amount int64
}

// checkBuilt verifies a transaction the wallet built. auto: inputs were chosen
// by the wallet. wantOuts: the requested outputs (exact scripts and amounts).
// changeAddr: requested change address ("" = address of the first input).
//
//go:norace
func (c *spendCtx) checkBuilt(class, what string, tx *wire.MsgTx, fee massutil.Amount, auto bool, from string, wantOuts []wantOut, changeAddr string, userFee int64, lockTime uint64, explicit []wire.OutPoint) bool {
	w := c.w
	bad := func(kind, format string, a ...interface{}) bool {
		w.Violate(class+"."+kind, "%s: %s", what, fmt.Sprintf(format, a...))
		return false
	}
	if len(tx.TxIn) == 0 {
		return bad("no-inputs", "transaction without inputs")
	}
	seen := map[wire.OutPoint]bool{}
	var sumIn int64
	for i, in := range tx.TxIn {
		op := in.PreviousOutPoint
		if seen[op] {
			return bad("duplicate-input", "input %v used twice", op)
		}
		seen[op] = true
		coin := c.l.Coins[op]
		if coin == nil {
			return bad("foreign-input", "input %d (%v) is not an unspent output of the selected wallet", i, op)
		}
		sumIn += coin.Amount
		if from != "" && c.addrOf[coin.Holder] != from {
			return bad("wrong-sender", "input %v belongs to %s, not to the requested sender %s", op, c.addrOf[coin.Holder], from)
		}
		if auto {
			switch {
			case coin.Class != ClassStd:
				return bad("locked-input", "automatic selection chose staking/binding coin %v", op)
			case !coin.SpendableAt(c.l.Tip):
				return bad("immature-input", "automatic selection chose coin %v (height %d, lock %d) that the next block (%d) cannot spend", op, coin.Height, coin.Lock(), c.l.Tip+1)
			case c.pendSpent[op]:
				return bad("pending-spent-input", "automatic selection chose coin %v which a pending transaction spends", op)
			case c.isReserved(op):
				return bad("reserved-input", "automatic selection chose coin %v which an outstanding draft created %v ago still reserves", op, 5*time.Minute-time.Until(c.reserved[op]))
			}
		}
		// sequence rules
		need := uint64(0)
		if !coin.Coinbase {
			need = coin.Lock()
		}
		if need > 0 && in.Sequence&wire.SequenceLockTimeMask != need {
			return bad("sequence", "input %v needs block-relative sequence %d, has %#x", op, need, in.Sequence)
		}
	}
	if !auto {
		if len(explicit) != len(tx.TxIn) {
			return bad("inputs-changed", "requested %d inputs, transaction has %d", len(explicit), len(tx.TxIn))
		}
		for i, op := range explicit {
			if tx.TxIn[i].PreviousOutPoint != op {
				return bad("inputs-changed", "input %d is %v, requested %v", i, tx.TxIn[i].PreviousOutPoint, op)
			}
		}
	}
	// outputs: requested ones (any order) plus at most one change
	used := make([]bool, len(tx.TxOut))
	var sumOut int64
	for _, o := range tx.TxOut {
		sumOut += o.Value
	}
	for _, wo := range wantOuts {
		found := false
		for i, o := range tx.TxOut {
			if !used[i] && bytes.Equal(o.PkScript, wo.pk) && o.Value == wo.amount {
				used[i], found = true, true
				break
			}
		}
		if !found {
			return bad("output-missing", "requested output %x amount %d not present exactly", wo.pk[:8], wo.amount)
		}
	}
	var extra []int
	for i := range tx.TxOut {
		if !used[i] {
			extra = append(extra, i)
		}
	}
	if len(extra) > 1 {
		return bad("extra-outputs", "%d outputs beyond the requested ones", len(extra))
	}
	if len(extra) == 1 {
		o := tx.TxOut[extra[0]]
		wantAddr := changeAddr
		if wantAddr == "" {
			first := c.l.Coins[tx.TxIn[0].PreviousOutPoint]
			wantAddr = c.addrOf[first.Holder]
		}
		h, ok := c.w.decodeStd(wantAddr)
		if !ok || !bytes.Equal(o.PkScript, stdScript(h)) {
			return bad("change-address", "change output does not pay %s", wantAddr)
		}
		if o.Value <= 0 {
			return bad("change-amount", "change amount %d", o.Value)
		}
	}
	if sumIn-sumOut != fee.IntValue() {
		return bad("fee-mismatch", "inputs %d - outputs %d = %d but the reported fee is %d", sumIn, sumOut, sumIn-sumOut, fee.IntValue())
	}
	if fee.IntValue() < userFee {
		return bad("fee-below-user", "fee %d below the user's fee %d", fee.IntValue(), userFee)
	}
	if tx.LockTime != lockTime {
		return bad("locktime", "lock time %d, requested %d", tx.LockTime, lockTime)
	}
	// sign it and measure
	signed, err := c.sign(tx, c.ws.Pass, "ALL")
	if err != nil {
		return bad("unsignable", "the wallet cannot sign the transaction it built: %v", err)
	}
	size := int64(signed.PlainSize())
	minFee, _ := blockchain.CalcMinRequiredTxRelayFee(size, massutil.MinRelayTxFee())
	if fee.Cmp(minFee) < 0 {
		return bad("fee-below-relay-minimum", "fee %d is below the relay minimum %d for the signed size %d", fee.IntValue(), minFee.IntValue(), size)
	}
	maxFee, _ := blockchain.CalcMinRequiredTxRelayFee(int64(blockchain.GetMaxStandardTxSize()), massutil.MinRelayTxFee())
	ceiling := maxFee.IntValue()
	if userFee > ceiling {
		ceiling = userFee
	}
	if auto && fee.IntValue() > ceiling {
		return bad("fee-excessive", "fee %d exceeds both the user's fee %d and the relay minimum of a standard-size transaction %d", fee.IntValue(), userFee, maxFee.IntValue())
	}
	w.Stat("check.built_tx")
	return true
}

// sign calls SignRawTx on a copy.
//
//go:norace
func (c *spendCtx) sign(tx *wire.MsgTx, pass, flag string) (*wire.MsgTx, error) {
	cp := copyTx(tx)
	var out []byte
	var err error
	np := len(c.w.S.Panics)
	if !c.inst.RunCall("SignRawTx", true, func() { out, err = c.inst.WM.SignRawTx([]byte(pass), flag, cp) }) {
		return nil, c.inst.unfinished("SignRawTx")
	}
	if len(c.w.S.Panics) > np {
		return nil, fmt.Errorf("SignRawTx PANICKED: %s", firstLines(c.w.S.Panics[np], 14))
	}
	if err != nil {
		return nil, err
	}
	var stx wire.MsgTx
	if e := stx.SetBytes(out, wire.Packet); e != nil {
		return nil, fmt.Errorf("signed bytes do not decode: %v", e)
	}
	return &stx, nil
}

//go:norace
func copyTx(tx *wire.MsgTx) *wire.MsgTx {
	b, _ := tx.Bytes(wire.Packet)
	var cp wire.MsgTx
	cp.SetBytes(b, wire.Packet)
	return &cp
}

// checkSigned verifies C03's positive clause for a signed transaction.
//
//go:norace
func (c *spendCtx) checkSigned(class string, orig, signed *wire.MsgTx, prev func(wire.OutPoint) (*wire.TxOut, uint64, bool)) bool {
	w := c.w
	bad := func(kind, format string, a ...interface{}) bool {
		w.Violate(class+"."+kind, format, a...)
		return false
	}
	if signed.Version != orig.Version || signed.LockTime != orig.LockTime || !bytes.Equal(signed.Payload, orig.Payload) ||
		len(signed.TxIn) != len(orig.TxIn) || len(signed.TxOut) != len(orig.TxOut) {
		return bad("altered", "signing changed non-witness fields: version %d->%d locktime %d->%d payload %x->%x inputs %d->%d outputs %d->%d",
			orig.Version, signed.Version, orig.LockTime, signed.LockTime, orig.Payload, signed.Payload, len(orig.TxIn), len(signed.TxIn), len(orig.TxOut), len(signed.TxOut))
	}
	for i := range orig.TxIn {
		if signed.TxIn[i].PreviousOutPoint != orig.TxIn[i].PreviousOutPoint || signed.TxIn[i].Sequence != orig.TxIn[i].Sequence {
			return bad("altered", "signing changed input %d (outpoint or sequence)", i)
		}
	}
	for i := range orig.TxOut {
		if signed.TxOut[i].Value != orig.TxOut[i].Value || !bytes.Equal(signed.TxOut[i].PkScript, orig.TxOut[i].PkScript) {
			return bad("altered", "signing changed output %d", i)
		}
	}
	if signed.TxHash() != orig.TxHash() {
		return bad("altered", "signing changed the transaction id")
	}
	hc := txscript.NewTxSigHashes(signed)
	for i, in := range signed.TxIn {
		po, height, ok := prev(in.PreviousOutPoint)
		if !ok {
			return bad("harness", "unknown previous output %v", in.PreviousOutPoint)
		}
		flags := txscript.StandardVerifyFlags
		if height >= consensus.MASSIP0002WarmUpHeight {
			flags |= txscript.ScriptMASSip2
		}
		vm, err := txscript.NewEngine(po.PkScript, signed, i, flags, nil, hc, po.Value)
		if err == nil {
			err = vm.Execute()
		}
		if err != nil {
			return bad("invalid-witness", "input %d (%v) fails the consensus script engine: %v", i, in.PreviousOutPoint, err)
		}
		// the redeem script must commit to the key the harness derived
		if len(in.Witness) != 2 {
			return bad("invalid-witness", "input %d has %d witness items", i, len(in.Witness))
		}
		_, holder, _, _, _ := classify(po.PkScript)
		idx := hdIndexOf(c.ws.HD, holder, uint32(len(c.ws.Issued))+60)
		if idx < 0 || !bytes.Equal(in.Witness[1], c.ws.HD.Addr(uint32(idx)).Redeem) {
			return bad("wrong-key", "input %d: redeem script does not carry the key of address index %d", i, idx)
		}
	}
	w.Stat("check.signed_tx")
	return true
}

var sigFlags = []string{"ALL", "NONE", "SINGLE", "ALL|ANYONECANPAY", "NONE|ANYONECANPAY", "SINGLE|ANYONECANPAY"}

//go:norace
func runSpend(w *World, p map[string]int, prop string) {
	t := w.Plan
	k := drawKnobs(w)
	k.GapLimit = 20
	w.SetKnobs(k)
	w.Gen.NullDataPct = 0
	inst := w.NewInstance("A")
	if err := inst.Open(); err != nil {
		w.Violate(prop+".harness", "%v", err)
		return
	}
	nW := 1 + t.Weighted([]int{6, 3})
	if err := setupWallets(w, inst, nW); err != nil {
		w.Violate(prop+".setup", "%v", err)
		return
	}
	if err := inst.StartSolo(); err != nil {
		w.Violate(prop+".start", "Start: %v", err)
		return
	}
	reserved := map[wire.OutPoint]time.Time{}
	many := t.Bool(param(p, "manypct", 4))
	nOps := 6 + t.Int(param(p, "ops", 30))
	sync := func() bool {
		if !quiesceAll(w, prop, 30000) {
			return false
		}
		return w.AllDelivered()
	}
	for i := 0; i < nOps && len(w.Violations) == 0; i++ {
		switch t.Weighted([]int{8, 2, 2, 10, 2}) {
		case 0:
			w.MineOnTip(t, 80)
		case 1:
			w.Fork(t, 1+t.Int(3), 1+t.Int(2), 60, 2)
		case 2:
			w.AnnounceLoose(t)
		case 4:
			// the clock moves (reservations last five minutes)
			d := []time.Duration{time.Second, 4*time.Minute + 59*time.Second, 5 * time.Minute, 5*time.Minute + time.Second, 11 * time.Minute}[t.Int(5)]
			time.Sleep(d)
			w.Stat("op.clock_advance")
		case 3:
			if many && w.Stats["op.fanout"] == 0 && w.Node.Tip().Height > 3 {
				fanout(w, t, inst)
			}
			if !sync() {
				break
			}
			ids := inst.SortedWalletIDs()
			ws := inst.Wallets[ids[t.Int(len(ids))]]
			c := newSpendCtx(w, inst, ws, reserved, prop)
			if c == nil {
				break
			}
			if _, err := inst.Use(ws.ID, true); err != nil {
				break
			}
			n := 1 + t.Int(3)
			for j := 0; j < n && len(w.Violations) == 0; j++ {
				if prop == "C02" {
					c.buildOne(t, prop)
				} else {
					c.signOne(t, prop)
				}
			}
		}
		w.runSteps(t.Int(3))
		if len(w.S.FatalExits) > 0 || len(w.S.Panics) > 0 {
			break
		}
	}
	if len(w.S.Panics) > 0 && len(w.Violations) == 0 {
		w.Violate(prop+".panic", "%s", firstLines(w.S.Panics[0], 40))
	}
	if len(w.S.FatalExits) > 0 && len(w.Violations) == 0 {
		w.Violate(prop+".follower-died", "%s", firstLines(w.S.FatalExits[0], 40))
	}
	w.Sample = fmt.Sprintf("%s wallets=%d ops=%d height=%d built=%d signed=%d refused=%d many=%v", prop, nW, nOps, w.Node.Tip().Height,
		w.Stats["check.built_tx"], w.Stats["check.signed_tx"], w.Stats["check.wrong_pass_refused"], many)
}

// fanout mines a transaction with several hundred small outputs to one wallet
// address so that automatic selection meets the standard-size input cap.
//
//go:norace
func fanout(w *World, t *Tape, inst *Instance) {
	ids := inst.SortedWalletIDs()
	ws := inst.Wallets[ids[0]]
	if len(ws.Issued) == 0 {
		return
	}
	var h [32]byte
	copy(h[:], ws.HD.Addr(ws.Issued[0].Index).ScriptHash)
	tip := w.Node.Tip()
	view := w.Gen.utxoAt(tip)
	var src *genCoin
	for _, c := range sortedCoins(view) {
		if c.cls == ClassStd && c.value > 80000000 && tip.Height+1 >= c.height && tip.Height+1-c.height >= c.lock() {
			src = c
			break
		}
	}
	if src == nil {
		return
	}
	tx := wire.NewMsgTx()
	tx.AddTxIn(wire.NewTxIn(&src.op, dummyWitness()))
	n := 660 + t.Int(60)
	each := (src.value - 100000) / int64(n)
	for i := 0; i < n; i++ {
		tx.AddTxOut(wire.NewTxOut(each+int64(i%7), stdScript(h)))
	}
	b := w.Gen.NewBlock(t, tip, []*wire.MsgTx{tx})
	w.Node.Attach(b)
	w.SyncTips()
	w.Announce(b)
	w.Stat("op.fanout")
}

// buildOne draws one creation request and checks the result.
//
//go:norace
func (c *spendCtx) buildOne(t *Tape, class string) {
	w, inst := c.w, c.inst
	var addrs []string
	for _, ia := range c.ws.Issued {
		var h [32]byte
		copy(h[:], c.ws.HD.Addr(ia.Index).ScriptHash)
		addrs = append(addrs, c.addrOf[h])
	}
	if len(addrs) == 0 {
		return
	}
	from := ""
	if t.Bool(25) {
		from = addrs[t.Int(len(addrs))]
	}
	change := ""
	if t.Bool(30) {
		change = addrs[t.Int(len(addrs))]
	}
	elig := c.eligible(from)
	var sumElig, sumTopK int64
	kCap := blockchain.GetMaxStandardTxSize()/154 - 10
	for i, coin := range elig {
		if i < kCap {
			sumTopK += coin.Amount
		}
	}
	// upper bound of what the wallet may regard as eligible (reservations at
	// their exact expiry instant count as free here)
	for _, coin := range c.l.Coins {
		if coin.Class == ClassStd && coin.SpendableAt(c.l.Tip) && !c.pendSpent[coin.Op] && !c.isReserved(coin.Op) && (from == "" || c.addrOf[coin.Holder] == from) {
			sumElig += coin.Amount
		}
	}
	if len(elig) > kCap {
		w.Stat("probe.more_coins_than_input_cap")
	}
	userFee := int64(0)
	if t.Bool(40) {
		userFee = int64(10000 * (1 + t.Int(50)))
	}
	lockTime := uint64(0)
	if t.Bool(15) {
		lockTime = uint64(1 + t.Int(1000))
	}
	// target: a fraction of the eligible funds, sometimes more than there is
	target := int64(200000)
	switch t.Weighted([]int{4, 4, 2, 2}) {
	case 0:
		target = 200000 + int64(t.Int(1000000))
	case 1:
		if sumElig > 0 {
			target = sumElig * int64(1+t.Int(98)) / 100
		}
	case 2:
		target = sumElig + int64(t.Int(5000000)) - 2500000
	case 3:
		target = sumElig*2 + 1000000
	}
	if target < 100000 {
		target = 100000
	}
	kind := t.Weighted([]int{10, 4, 3, 3})
	minFee := massutil.MinRelayTxFee().IntValue()
	feeFloor := userFee
	if feeFloor < minFee {
		feeFloor = minFee
	}
	maxStdFee, _ := blockchain.CalcMinRequiredTxRelayFee(int64(blockchain.GetMaxStandardTxSize()), massutil.MinRelayTxFee())
	var wantOuts []wantOut
	var hexTx string
	var fee massutil.Amount
	var err error
	auto := true
	var explicit []wire.OutPoint
	what := ""
	switch kind {
	case 0: // automatic payment
		nOut := 1 + t.Int(2)
		amounts := map[string]massutil.Amount{}
		rest := target
		for i := 0; i < nOut && rest >= 100000; i++ {
			v := rest
			if i < nOut-1 {
				v = rest / 2
			}
			hh, _ := w.Gen.pickPayee(t, 30)
			dest := w.Gen.addrString(hh)
			if _, dup := amounts[dest]; dup {
				continue
			}
			a, _ := massutil.NewAmountFromInt(v)
			amounts[dest] = a
			wantOuts = append(wantOuts, wantOut{stdScript(hh), v})
			rest -= v
		}
		target -= rest
		uf, _ := massutil.NewAmountFromInt(userFee)
		what = fmt.Sprintf("AutoCreateRawTransaction(target=%d userFee=%d from=%q change=%q lock=%d) with %d eligible coins worth %d", target, userFee, from, change, lockTime, len(elig), sumElig)
		if !inst.RunCall("AutoCreateRawTransaction", true, func() {
			hexTx, fee, err = inst.WM.AutoCreateRawTransaction(amounts, lockTime, uf, from, change, nil)
		}) {
			return
		}
	case 1: // staking
		hh := c.ownHash(t)
		sa, _ := massutil.NewAddressStakingScriptHash(hh[:], w.Params)
		fz := consensus.MinFrozenPeriod + uint64(t.Int(5))
		if target < int64(consensus.MinStakingValue) {
			target = int64(consensus.MinStakingValue)
		}
		a, _ := massutil.NewAmountFromInt(target)
		outs := []*masswallet.StakingTxOut{{Address: sa.EncodeAddress(), FrozenPeriod: uint32(fz), Amount: a}}
		wantOuts = append(wantOuts, wantOut{stakingScript(hh, fz), target})
		uf, _ := massutil.NewAmountFromInt(userFee)
		change = ""
		what = fmt.Sprintf("CreateStakingTransaction(amount=%d frozen=%d userFee=%d from=%q) with %d eligible coins worth %d", target, fz, userFee, from, len(elig), sumElig)
		if !inst.RunCall("CreateStakingTransaction", true, func() {
			hexTx, fee, err = inst.WM.CreateStakingTransaction(from, outs, lockTime, uf)
		}) {
			return
		}
	case 2: // binding
		hh := c.ownHash(t)
		holder, _ := massutil.NewAddressWitnessScriptHash(hh[:], w.Params)
		tb := make([]byte, 20)
		w.Gen.nonce++
		tb[19] = byte(w.Gen.nonce)
		tb[18] = byte(w.Gen.nonce >> 8)
		targetAddr, terr := massutil.NewAddressPubKeyHash(tb, w.Params)
		if terr != nil {
			return
		}
		a, _ := massutil.NewAmountFromInt(target)
		outs := []*masswallet.BindingOutput{{Holder: holder, BindingTarget: targetAddr, Amount: a}}
		wantOuts = append(wantOuts, wantOut{bindingScript(hh, tb), target})
		uf, _ := massutil.NewAmountFromInt(userFee)
		change, lockTime = "", 0
		what = fmt.Sprintf("CreateBindingTransaction(amount=%d userFee=%d from=%q) with %d eligible coins worth %d", target, userFee, from, len(elig), sumElig)
		if !inst.RunCall("CreateBindingTransaction", true, func() {
			hexTx, fee, err = inst.WM.CreateBindingTransaction(from, uf, outs)
		}) {
			return
		}
	case 3: // explicit inputs
		auto = false
		from = ""
		var pool []*Coin
		for _, coin := range c.l.Coins {
			if coin.SpendableAt(c.l.Tip) && coin.Amount > 300000 {
				pool = append(pool, coin)
			}
		}
		sort.Slice(pool, func(i, j int) bool { return pool[i].Op.String() < pool[j].Op.String() })
		if len(pool) == 0 {
			return
		}
		n := 1 + t.Int(3)
		var inputs []*masswallet.TxIn
		var sum int64
		seen := map[wire.OutPoint]bool{}
		for i := 0; i < n; i++ {
			coin := pool[t.Int(len(pool))]
			if seen[coin.Op] {
				continue
			}
			seen[coin.Op] = true
			inputs = append(inputs, &masswallet.TxIn{TxId: coin.Op.Hash.String(), Vout: coin.Op.Index})
			explicit = append(explicit, coin.Op)
			sum += coin.Amount
		}
		// sometimes one of the named inputs is not the selected wallet's: a
		// coin of another wallet of the same node, or of nobody here. Such
		// a request must be refused (checkBuilt flags a draft that spends
		// a foreign output)
		if t.Bool(20) {
			var foreign []*Coin
			for _, id := range inst.SortedWalletIDs() {
				ows := inst.Wallets[id]
				if ows == c.ws || ows.Removing {
					continue
				}
				own := map[[32]byte]bool{}
				for _, ia := range ows.Issued {
					var h [32]byte
					copy(h[:], ows.HD.Addr(ia.Index).ScriptHash)
					own[h] = true
				}
				for _, coin := range ComputeLedger(w.Node.BestChain(), own).Coins {
					if coin.SpendableAt(c.l.Tip) && coin.Class == ClassStd && c.l.Coins[coin.Op] == nil {
						foreign = append(foreign, coin)
					}
				}
			}
			kind := "probe.explicit_input_of_another_local_wallet"
			if len(foreign) == 0 || t.Bool(25) {
				foreign = nil
				kind = "probe.explicit_input_of_nobody_here"
				tip := w.Node.Tip()
				for _, gc := range sortedCoins(w.Gen.utxoAt(tip)) {
					if gc.owner < 2 && gc.cls == ClassStd && tip.Height+1 >= gc.height && tip.Height+1-gc.height >= gc.lock() {
						foreign = append(foreign, &Coin{Op: gc.op, Amount: gc.value})
					}
				}
			}
			if len(foreign) > 0 {
				sort.Slice(foreign, func(i, j int) bool { return foreign[i].Op.String() < foreign[j].Op.String() })
				fc := foreign[t.Int(len(foreign))]
				if !seen[fc.Op] {
					seen[fc.Op] = true
					in := &masswallet.TxIn{TxId: fc.Op.Hash.String(), Vout: fc.Op.Index}
					at := t.Int(len(inputs) + 1)
					inputs = append(inputs[:at], append([]*masswallet.TxIn{in}, inputs[at:]...)...)
					explicit = append(explicit[:at], append([]wire.OutPoint{fc.Op}, explicit[at:]...)...)
					sum += fc.Amount
					w.Stat(kind)
				}
			}
		}
		// 1-4 distinct recipients sharing the payment; a random non-empty
		// subset of them bears the fee (in equal shares) when subtract is set
		pay := sum * int64(20+t.Int(70)) / 100
		overdrawn := false
		if t.Bool(12) {
			// more than the named inputs hold: refused after the inputs were
			// accepted - and a refused request must not reserve anything (the
			// creations that follow tell: the reservation model knows only
			// drafts that were handed out)
			pay = sum + sum/10
			overdrawn = true
		}
		nRec := 1 + t.Weighted([]int{5, 2, 3, 2})
		type rcpt struct {
			hh   [32]byte
			dest string
			amt  int64
			sub  bool
		}
		var rc []rcpt
		amounts := map[string]massutil.Amount{}
		for i := 0; i < nRec; i++ {
			hh, _ := w.Gen.pickPayee(t, 30)
			dest := w.Gen.addrString(hh)
			if _, dup := amounts[dest]; dup {
				continue
			}
			amt := pay / int64(nRec)
			a, _ := massutil.NewAmountFromInt(amt)
			amounts[dest] = a
			rc = append(rc, rcpt{hh: hh, dest: dest, amt: amt})
		}
		if overdrawn {
			// (recipients drawn twice count once: what matters is what is really asked for)
			var total int64
			for _, r := range rc {
				total += r.amt
			}
			overdrawn = total > sum
		}
		var sub map[string]struct{}
		subtract := t.Bool(40)
		nSub := 0
		if subtract {
			sub = map[string]struct{}{}
			for i := range rc {
				if t.Bool(60) {
					rc[i].sub = true
				}
			}
			if !rc[0].sub && t.Bool(80) {
				rc[0].sub = true
			}
			for i := range rc {
				if rc[i].sub {
					sub[rc[i].dest] = struct{}{}
					nSub++
				}
			}
			if nSub == 0 {
				subtract = false
				sub = nil
			}
		}
		what = fmt.Sprintf("CreateRawTransaction(%d inputs worth %d, %d recipients of %d each, %d of them bearing the fee, change=%q lock=%d)", len(inputs), sum, len(rc), pay/int64(nRec), nSub, change, lockTime)
		if !inst.RunCall("CreateRawTransaction", true, func() {
			hexTx, fee, err = inst.WM.CreateRawTransaction(inputs, amounts, lockTime, change, sub)
		}) {
			return
		}
		if err != nil {
			w.Stat("check.build_refused")
			if overdrawn {
				w.Stat("probe.explicit_request_refused_after_its_inputs_were_accepted")
			}
			return // manual path: refusal reasons (dust, not enough inputs) are not asserted here
		}
		if overdrawn {
			w.Violate(class+".built-without-funds", "%s succeeded although the recipients get more than the named inputs hold", what)
			return
		}
		if nSub > 1 {
			w.Stat("probe.fee_shared_by_several_recipients")
			if nSub > 2 {
				w.Stat("probe.fee_shared_by_three_or_more")
			}
		}
		for _, r := range rc {
			if r.sub {
				// the fee-bearing recipients share the fee equally; together
				// they give up exactly the reported fee
				if fee.IntValue()%int64(nSub) != 0 {
					w.Violate(class+".fee-share", "%s: the reported fee %d is not what %d equal shares add up to", what, fee.IntValue(), nSub)
					return
				}
				wantOuts = append(wantOuts, wantOut{stdScript(r.hh), r.amt - fee.IntValue()/int64(nSub)})
			} else {
				wantOuts = append(wantOuts, wantOut{stdScript(r.hh), r.amt})
			}
		}
		userFee = 0
	}
	if err != nil {
		w.Stat("check.build_refused")
		if !auto {
			return
		}
		// must not fail when the largest eligible coins (within the input cap)
		// cover outputs, the worst-case fee and one dust adjustment
		needMax := target + maxStdFee.IntValue() + 2*minFee
		if userFee > maxStdFee.IntValue() {
			needMax = target + userFee + 2*minFee
		}
		if sumTopK >= needMax {
			diag := ""
			for i, coin := range elig {
				if i < 6 {
					op := coin.Op
					diag += fmt.Sprintf(" [%s:%d amt=%d h=%d cb=%v walletReserved=%v]", op.Hash.String()[:8], op.Index, coin.Amount, coin.Height, coin.Coinbase, inst.WM.UTXOUsed(&op))
				}
			}
			w.Violate(class+".refused-with-funds", "%s failed with %v although the %d largest eligible coins hold %d >= %d; tip=%d eligible:%s", what, err, minInt(len(elig), kCap), sumTopK, needMax, c.l.Tip, diag)
			return
		}
		if sumElig < target+feeFloor {
			if !errors.Is(err, masswallet.ErrInsufficientFunds) && !errors.Is(err, masswallet.ErrOverfullUtxo) {
				w.Violate(class+".wrong-error", "%s: funds do not suffice (eligible %d < %d) but the error is %v, not the insufficient-funds error", what, sumElig, target+feeFloor, err)
			} else {
				w.Stat("probe.insufficient_funds_reported")
			}
		}
		return
	}
	tx, derr := decodeTxHex(hexTx)
	if derr != nil {
		w.Violate(class+".undecodable", "%s returned bytes that do not decode: %v", what, derr)
		return
	}
	if auto && sumElig < target+feeFloor {
		w.Violate(class+".built-without-funds", "%s succeeded although all eligible coins hold only %d < %d", what, sumElig, target+feeFloor)
		return
	}
	if !c.checkBuilt(class, what, tx, fee, auto, from, wantOuts, change, userFee, lockTime, explicit) {
		return
	}
	// the draft now reserves its inputs for five minutes
	for _, in := range tx.TxIn {
		c.reserved[in.PreviousOutPoint] = time.Now().Add(5 * time.Minute)
	}
	if len(tx.TxIn) > 1 {
		w.Stat("probe.multi_input_tx_built")
	}
	if len(tx.TxOut) > len(wantOuts) {
		w.Stat("probe.change_output_built")
	}
}

//go:norace
func (c *spendCtx) ownHash(t *Tape) [32]byte {
	var h [32]byte
	ia := c.ws.Issued[t.Int(len(c.ws.Issued))]
	copy(h[:], c.ws.HD.Addr(ia.Index).ScriptHash)
	return h
}

// signOne builds a transaction over wallet coins by hand (confirmed or pending
// parents, any class that consensus lets the next block spend), signs it with
// the right and with wrong passphrases and checks C03.
//
//go:norace
func (c *spendCtx) signOne(t *Tape, class string) {
	w, inst := c.w, c.inst
	type src struct {
		op     wire.OutPoint
		out    *wire.TxOut
		height uint64
		seq    uint64
		cls    CoinClass
	}
	var pool []src
	for _, coin := range c.l.Coins {
		if coin.Class == ClassStaking {
			w.Stat("probe.wallet_has_staking_coin")
			if coin.SpendableAt(c.l.Tip) {
				w.Stat("probe.wallet_has_withdrawable_staking_coin")
			}
		}
		// (deposits made by the generator are small: no minimum for them)
		if !coin.SpendableAt(c.l.Tip) || (coin.Amount < 200000 && coin.Class == ClassStd) {
			continue
		}
		seq := wire.MaxTxInSequenceNum
		if !coin.Coinbase && coin.Lock() > 0 {
			seq = coin.Lock()
		}
		pool = append(pool, src{coin.Op, &wire.TxOut{Value: coin.Amount, PkScript: coin.PkScript}, coin.Height, seq, coin.Class})
	}
	// outputs of pending transactions that pay this wallet
	pend, ok := w.PendingSet(inst)
	if !ok {
		return
	}
	for h, tx := range pend {
		for i, o := range tx.TxOut {
			cls, holder, _, _, okc := classify(o.PkScript)
			if okc && cls == ClassStd && c.addrOf[holder] != "" && o.Value >= 200000 {
				pool = append(pool, src{wire.OutPoint{Hash: h, Index: uint32(i)}, o, c.l.Tip + 1, wire.MaxTxInSequenceNum, ClassStd})
			}
		}
	}
	if len(pool) == 0 {
		return
	}
	sort.Slice(pool, func(i, j int) bool { return pool[i].op.String() < pool[j].op.String() })
	tx := wire.NewMsgTx()
	prevs := map[wire.OutPoint]src{}
	n := 1 + t.Int(4)
	var sum int64
	pendingParent := false
	// withdrawable staking / binding deposits are rare among the coins: half of
	// the transactions start with one when there is any
	var deposits []src
	for _, s := range pool {
		if s.cls != ClassStd {
			deposits = append(deposits, s)
		}
	}
	for i := 0; i < n; i++ {
		s := pool[t.Int(len(pool))]
		if i == 0 && len(deposits) > 0 && t.Bool(50) {
			s = deposits[t.Int(len(deposits))]
		}
		if _, dup := prevs[s.op]; dup {
			continue
		}
		switch s.cls {
		case ClassStaking:
			w.Stat("probe.sign_staking_withdrawal_input")
		case ClassBinding:
			w.Stat("probe.sign_binding_withdrawal_input")
		}
		prevs[s.op] = s
		in := wire.NewTxIn(&s.op, nil)
		in.Sequence = s.seq
		tx.AddTxIn(in)
		sum += s.out.Value
		if s.height > c.l.Tip {
			pendingParent = true
		}
	}
	nOut := 1 + t.Int(3)
	rest := sum - 100000
	floor := int64(50000)
	if sum < 400000 {
		// only small deposits: signing does not look at fee or dust policy
		rest, floor = sum-sum/10, 0
	}
	for i := 0; i < nOut && rest > floor; i++ {
		v := rest
		if i < nOut-1 {
			v = rest / 2
		}
		hh, _ := w.Gen.pickPayee(t, 40)
		tx.AddTxOut(wire.NewTxOut(v, stdScript(hh)))
		rest -= v
	}
	if len(tx.TxOut) == 0 {
		return
	}
	if t.Bool(20) {
		tx.LockTime = uint64(1 + t.Int(500))
	}
	if t.Bool(20) {
		tx.Payload = []byte{1, 2, 3, byte(t.Int(250))}
	}
	flag := sigFlags[t.Int(len(sigFlags))]
	if (flag == "SINGLE" || flag == "SINGLE|ANYONECANPAY") && len(tx.TxOut) < len(tx.TxIn) {
		// SIGHASH_SINGLE signs "the output with the same index": it is only
		// defined for inputs that have one
		flag = "ALL"
	}
	prevFn := func(op wire.OutPoint) (*wire.TxOut, uint64, bool) {
		s, ok := prevs[op]
		return s.out, s.height, ok
	}
	if pendingParent {
		w.Stat("probe.signing_spend_of_pending_output")
	}
	wrong := []string{"", "x", c.ws.Pass + "x", c.ws.Pass[:len(c.ws.Pass)-1], "wrongPass99", string([]byte{0, 1, 2, 255}), PubPass}
	attempt := func(pass string, right bool) bool {
		st, err := c.sign(tx, pass, flag)
		if errors.Is(err, ErrCrashed) {
			return false
		}
		if right {
			if err != nil {
				w.Violate(class+".sign-failed", "SignRawTx(flag %s, %d inputs, pending parent=%v) with the right passphrase failed: %v", flag, len(tx.TxIn), pendingParent, err)
				return false
			}
			return c.checkSigned(class, tx, st, prevFn)
		}
		if err == nil {
			w.Violate(class+".wrong-passphrase-signed", "SignRawTx succeeded with passphrase %q (right one is different)", pass)
			return false
		}
		if err != keystore.ErrInvalidPassphrase {
			w.Stat("probe.wrong_pass_other_error")
		}
		w.Stat("check.wrong_pass_refused")
		return true
	}
	// two signers at once: SignRawTx takes no wallet lock and ends by clearing
	// the unlocked keys of all keystores, so a right-passphrase signer and a
	// wrong-passphrase signer are interleaved at every database read
	if t.Bool(30) {
		wp := wrong[t.Int(len(wrong))]
		cpA, cpB := copyTx(tx), copyTx(tx)
		var outA, outB []byte
		var errA, errB error
		np := len(w.S.Panics)
		gA := inst.Call(RoleClient, "SignRawTx(right)", func() { outA, errA = inst.WM.SignRawTx([]byte(c.ws.Pass), flag, cpA) })
		gB := inst.Call(RoleClient, "SignRawTx(wrong)", func() { outB, errB = inst.WM.SignRawTx([]byte(wp), flag, cpB) })
		gA.gateReads, gB.gateReads = true, true
		for i := 0; i < 100000 && !(gA.done && gB.done); i++ {
			en := w.S.Enabled()
			var mine []Action
			for _, a := range en {
				if a.G == gA || a.G == gB {
					mine = append(mine, a)
				}
			}
			if len(mine) == 0 {
				if !w.S.StepFair() {
					break
				}
				continue
			}
			w.S.Do(mine[t.Int(len(mine))])
		}
		if !(gA.done && gB.done) {
			w.Violate(class+".sign-hangs", "concurrent signers did not finish: %v", w.S.ParkedSummary())
			return
		}
		if len(w.S.Panics) > np {
			w.Violate(class+".panic", "concurrent signers: %s", firstLines(w.S.Panics[np], 30))
			return
		}
		w.Stat("probe.concurrent_signers")
		if errB == nil || len(outB) > 0 {
			w.Violate(class+".wrong-passphrase-signed", "with a right-passphrase signer running concurrently, SignRawTx with passphrase %q returned err=%v and %d bytes", wp, errB, len(outB))
			return
		}
		if errA != nil {
			w.Violate(class+".sign-failed", "with a wrong-passphrase signer running concurrently, SignRawTx with the right passphrase failed: %v", errA)
			return
		}
		var stx wire.MsgTx
		if e := stx.SetBytes(outA, wire.Packet); e != nil {
			w.Violate(class+".undecodable", "signed bytes do not decode: %v", e)
			return
		}
		if !c.checkSigned(class, tx, &stx, prevFn) {
			return
		}
	}
	// interleavings of successful and failed attempts
	for i := 0; i < 1+t.Int(4); i++ {
		if t.Bool(50) {
			if !attempt(c.ws.Pass, true) {
				return
			}
		} else if !attempt(wrong[t.Int(len(wrong))], false) {
			return
		}
	}
	if len(w.S.Panics) > 0 {
		w.Violate(class+".panic", "%s", firstLines(w.S.Panics[0], 40))
	}
}
