package sim

// Ledger model L(chain, wallet): recomputed from scratch from the simulated
// best chain at every check. Output scripts are classified with the consensus
// script library (txscript), never with the wallet's own parser; maturity
// rules are transcribed from mass-core consensus (see DESIGN.md appendix B).

import (
	"encoding/binary"
	"fmt"
	"sort"
	"strings"

	"github.com/massnetorg/mass-core/consensus"
	"github.com/massnetorg/mass-core/txscript"
	"github.com/massnetorg/mass-core/wire"
)

type CoinClass int

const (
	ClassStd CoinClass = iota
	ClassStaking
	ClassBinding
)

type Coin struct {
	Op       wire.OutPoint
	Amount   int64
	Height   uint64
	Class    CoinClass
	Frozen   uint64 // staking frozen period
	NewBind  bool   // binding output with a 22-byte target (locked)
	Target   []byte // binding target bytes
	Coinbase bool
	Holder   [32]byte
	PkScript []byte
}

// Lock returns the number of blocks that must separate the coin's block from
// the spending block (next - h >= Lock).
//
//go:norace
func (c *Coin) Lock() uint64 {
	switch {
	case c.Coinbase:
		return consensus.CoinbaseMaturity
	case c.Class == ClassStaking:
		return c.Frozen + 1
	case c.Class == ClassBinding && c.NewBind:
		return consensus.MASSIP0002BindingLockedPeriod
	}
	return 0
}

// SpendableAt reports whether the block after tip may spend the coin.
//
//go:norace
func (c *Coin) SpendableAt(tip uint64) bool {
	next := tip + 1
	return next >= c.Height && next-c.Height >= c.Lock()
}

//go:norace
func classify(pk []byte) (cls CoinClass, holder [32]byte, frozen uint64, target []byte, ok bool) {
	class, pops := txscript.GetScriptInfo(pk)
	switch class {
	case txscript.WitnessV0ScriptHashTy:
		_, rsh, err := txscript.GetParsedOpcode(pops, class)
		if err != nil {
			return
		}
		return ClassStd, rsh, 0, nil, true
	case txscript.StakingScriptHashTy:
		// OP_0 <32> <8-byte LE frozen period>
		_, rsh, err := txscript.GetParsedOpcode(pops, class)
		if err != nil {
			return
		}
		// frozen period: last 8 bytes of the script
		if len(pk) < 8 {
			return
		}
		fz := binary.LittleEndian.Uint64(pk[len(pk)-8:])
		return ClassStaking, rsh, fz, nil, true
	case txscript.BindingScriptHashTy:
		h, t, err := txscript.GetParsedBindingOpcode(pops)
		if err != nil || len(h) != 32 {
			return
		}
		copy(holder[:], h)
		return ClassBinding, holder, 0, append([]byte(nil), t...), true
	}
	return
}

// GameRec is one staking/binding deposit on the best chain.
type GameRec struct {
	Op        wire.OutPoint
	Amount    int64
	Height    uint64
	Binding   bool
	Frozen    uint64
	Target    []byte
	Holder    [32]byte
	Withdrawn bool
}

// Ledger is the model state for one wallet.
type Ledger struct {
	Tip    uint64
	Coins  map[wire.OutPoint]*Coin
	Games  []*GameRec
	PaidTo map[[32]byte]bool // holder hashes that received a payment on the best chain
}

// ComputeLedger replays chain (index = height) for the given set of holder
// script hashes.
//
//go:norace
func ComputeLedger(chain []*BlockRec, owned map[[32]byte]bool) *Ledger {
	Progress.Add(1)
	l := &Ledger{Coins: map[wire.OutPoint]*Coin{}, PaidTo: map[[32]byte]bool{}}
	games := map[wire.OutPoint]*GameRec{}
	for h, b := range chain {
		if h == 0 {
			continue
		}
		for _, tx := range b.Msg.Transactions {
			cb := tx.IsCoinBaseTx()
			if !cb {
				for _, in := range tx.TxIn {
					if _, ok := l.Coins[in.PreviousOutPoint]; ok {
						delete(l.Coins, in.PreviousOutPoint)
						if g := games[in.PreviousOutPoint]; g != nil {
							g.Withdrawn = true
						}
					}
				}
			}
			th := tx.TxHash()
			for i, out := range tx.TxOut {
				cls, holder, fz, target, ok := classify(out.PkScript)
				if !ok || !owned[holder] {
					continue
				}
				l.PaidTo[holder] = true
				c := &Coin{Op: wire.OutPoint{Hash: th, Index: uint32(i)}, Amount: out.Value, Height: uint64(h),
					Class: cls, Frozen: fz, Target: target, NewBind: cls == ClassBinding && len(target) == 22,
					Coinbase: cb, Holder: holder, PkScript: out.PkScript}
				l.Coins[c.Op] = c
				if cls != ClassStd {
					g := &GameRec{Op: c.Op, Amount: out.Value, Height: uint64(h), Binding: cls == ClassBinding,
						Frozen: fz, Target: target, Holder: holder}
					games[c.Op] = g
					l.Games = append(l.Games, g)
				}
			}
		}
	}
	l.Tip = uint64(len(chain) - 1)
	return l
}

// ---- canonical observation ----

type ObsUtxo struct {
	Addr   string
	TxID   string
	Vout   uint32
	Amount int64
	Height uint64
}

type ObsBal struct {
	Addr                                 string
	Total, Spendable, WStaking, WBinding int64
}

// Obs is what the public API shows for one wallet, canonicalised.
type Obs struct {
	WalletID string
	SyncedTo uint64
	Gross    int64 // UseWallet / WalletBalance total
	Bal      ObsBal
	AddrBal  []ObsBal
	Utxos    []ObsUtxo
}

//go:norace
func (o *Obs) String() string {
	var sb strings.Builder
	fmt.Fprintf(&sb, "wallet=%s synced=%d gross=%d bal={%d %d %d %d}\n", o.WalletID, o.SyncedTo, o.Gross,
		o.Bal.Total, o.Bal.Spendable, o.Bal.WStaking, o.Bal.WBinding)
	for _, a := range o.AddrBal {
		if a.Total != 0 || a.Spendable != 0 || a.WStaking != 0 || a.WBinding != 0 {
			fmt.Fprintf(&sb, " addr %s {%d %d %d %d}\n", a.Addr, a.Total, a.Spendable, a.WStaking, a.WBinding)
		}
	}
	for _, u := range o.Utxos {
		fmt.Fprintf(&sb, " utxo %s %s:%d amt=%d h=%d\n", u.Addr, u.TxID, u.Vout, u.Amount, u.Height)
	}
	return sb.String()
}

//go:norace
func sortObs(o *Obs) {
	sort.Slice(o.AddrBal, func(i, j int) bool { return o.AddrBal[i].Addr < o.AddrBal[j].Addr })
	sort.Slice(o.Utxos, func(i, j int) bool {
		a, b := o.Utxos[i], o.Utxos[j]
		if a.Addr != b.Addr {
			return a.Addr < b.Addr
		}
		if a.TxID != b.TxID {
			return a.TxID < b.TxID
		}
		return a.Vout < b.Vout
	})
}

// ModelObs renders the ledger the way the API would show it. addrOf maps a
// holder hash to the standard address string; addrs lists every address the
// wallet is expected to report on (issued addresses).
//
//go:norace
func (l *Ledger) ModelObs(walletID string, addrOf map[[32]byte]string, addrs []string) *Obs {
	o := &Obs{WalletID: walletID, SyncedTo: l.Tip}
	per := map[string]*ObsBal{}
	for _, a := range addrs {
		per[a] = &ObsBal{Addr: a}
	}
	for _, c := range l.Coins {
		a := addrOf[c.Holder]
		pb := per[a]
		if pb == nil {
			pb = &ObsBal{Addr: a}
			per[a] = pb
		}
		o.Gross += c.Amount
		o.Bal.Total += c.Amount
		pb.Total += c.Amount
		if c.SpendableAt(l.Tip) {
			switch c.Class {
			case ClassStd:
				o.Bal.Spendable += c.Amount
				pb.Spendable += c.Amount
			case ClassStaking:
				o.Bal.WStaking += c.Amount
				pb.WStaking += c.Amount
			case ClassBinding:
				o.Bal.WBinding += c.Amount
				pb.WBinding += c.Amount
			}
		}
		o.Utxos = append(o.Utxos, ObsUtxo{Addr: a, TxID: c.Op.Hash.String(), Vout: c.Op.Index, Amount: c.Amount, Height: c.Height})
	}
	for _, pb := range per {
		o.AddrBal = append(o.AddrBal, *pb)
	}
	sortObs(o)
	return o
}
