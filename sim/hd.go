package sim

// Independent BIP-39 / BIP-32 derivation used by the oracles. It shares no code
// with masswallet/keystore: HMAC-SHA512 + PBKDF2 + btcec only. The address
// layout (path m/44'/coin'/1'/branch/index, id = bech32("ac",15,hash160(account
// pubkey)), address = P2WSH of the 1-of-1 multisig redeem script) is transcribed
// from the wallet's documentation of its own format, not called from it.

import (
	"crypto/hmac"
	"crypto/sha256"
	"crypto/sha512"
	"encoding/binary"
	"errors"
	"math/big"

	"github.com/btcsuite/btcd/btcec"
	"golang.org/x/crypto/pbkdf2"
	"golang.org/x/crypto/ripemd160"
)

const hardened = uint32(0x80000000)

type xkey struct {
	priv  *big.Int // nil for public-only
	pubX  *big.Int
	pubY  *big.Int
	chain []byte
	// unpadded reproduces the derivation of btcd-derived hdkeychain code for
	// hardened children: the parent private key enters the HMAC without its
	// leading zero bytes (differs from BIP-32 for ~1/128 of parents). Whether
	// the wallet is exactly BIP-32 is property C14 (not a simulation target);
	// the harness only needs to know the wallet's keys.
	unpadded bool
	isMaster bool
}

//go:norace
func bip39Seed(mnemonic, passphrase string) []byte {
	return pbkdf2.Key([]byte(mnemonic), []byte("mnemonic"+passphrase), 2048, 64, sha512.New)
}

//go:norace
func masterKey(seed []byte) (*xkey, error) {
	mac := hmac.New(sha512.New, []byte("Bitcoin seed"))
	mac.Write(seed)
	I := mac.Sum(nil)
	k := new(big.Int).SetBytes(I[:32])
	if k.Sign() == 0 || k.Cmp(btcec.S256().N) >= 0 {
		return nil, errors.New("unusable seed")
	}
	x, y := btcec.S256().ScalarBaseMult(I[:32])
	return &xkey{priv: k, pubX: x, pubY: y, chain: I[32:]}, nil
}

//go:norace
func compress(x, y *big.Int) []byte {
	out := make([]byte, 33)
	out[0] = 2 + byte(y.Bit(0))
	xb := x.Bytes()
	copy(out[33-len(xb):], xb)
	return out
}

//go:norace
func (k *xkey) child(i uint32) (*xkey, error) {
	var data []byte
	if i >= hardened {
		if k.priv == nil {
			return nil, errors.New("hardened child of public key")
		}
		pb := k.priv.Bytes()
		if k.unpadded {
			// 0x00 || key bytes as that code holds them (32 bytes for the
			// master key, minimal big-endian bytes for derived keys) || zero
			// fill on the right
			data = make([]byte, 33)
			if k.isMaster {
				copy(data[33-len(pb):], pb)
			} else {
				copy(data[1:], pb)
			}
		} else {
			data = make([]byte, 33)
			copy(data[33-len(pb):], pb)
		}
	} else {
		data = compress(k.pubX, k.pubY)
	}
	var ib [4]byte
	binary.BigEndian.PutUint32(ib[:], i)
	mac := hmac.New(sha512.New, k.chain)
	mac.Write(data)
	mac.Write(ib[:])
	I := mac.Sum(nil)
	il := new(big.Int).SetBytes(I[:32])
	N := btcec.S256().N
	if il.Cmp(N) >= 0 {
		return nil, errors.New("invalid child")
	}
	c := &xkey{chain: I[32:], unpadded: k.unpadded}
	if k.priv != nil {
		ck := new(big.Int).Add(il, k.priv)
		ck.Mod(ck, N)
		if ck.Sign() == 0 {
			return nil, errors.New("invalid child")
		}
		c.priv = ck
		kb := make([]byte, 32)
		b := ck.Bytes()
		copy(kb[32-len(b):], b)
		c.pubX, c.pubY = btcec.S256().ScalarBaseMult(kb)
	} else {
		ix, iy := btcec.S256().ScalarBaseMult(I[:32])
		c.pubX, c.pubY = btcec.S256().Add(ix, iy, k.pubX, k.pubY)
		if c.pubX.Sign() == 0 && c.pubY.Sign() == 0 {
			return nil, errors.New("invalid child")
		}
	}
	return c, nil
}

//go:norace
func (k *xkey) neuter() *xkey {
	return &xkey{pubX: k.pubX, pubY: k.pubY, chain: k.chain, unpadded: k.unpadded}
}

//go:norace
func hash160(b []byte) []byte {
	h := sha256.Sum256(b)
	r := ripemd160.New()
	r.Write(h[:])
	return r.Sum(nil)
}

// ---- bech32 (own implementation) ----

const bech32Charset = "qpzry9x8gf2tvdw0s3jn54khce6mua7l"

//go:norace
func bech32Polymod(values []byte) uint32 {
	gen := []uint32{0x3b6a57b2, 0x26508e6d, 0x1ea119fa, 0x3d4233dd, 0x2a1462b3}
	chk := uint32(1)
	for _, v := range values {
		b := chk >> 25
		chk = (chk&0x1ffffff)<<5 ^ uint32(v)
		for i := 0; i < 5; i++ {
			if (b>>uint(i))&1 == 1 {
				chk ^= gen[i]
			}
		}
	}
	return chk
}

//go:norace
func bech32Encode(hrp string, data []byte) string {
	var exp []byte
	for _, c := range hrp {
		exp = append(exp, byte(c)>>5)
	}
	exp = append(exp, 0)
	for _, c := range hrp {
		exp = append(exp, byte(c)&31)
	}
	values := append(append([]byte{}, exp...), data...)
	values = append(values, 0, 0, 0, 0, 0, 0)
	mod := bech32Polymod(values) ^ 1
	out := hrp + "1"
	for _, d := range data {
		out += string(bech32Charset[d])
	}
	for i := 0; i < 6; i++ {
		out += string(bech32Charset[(mod>>uint(5*(5-i)))&31])
	}
	return out
}

//go:norace
func convertBits8to5(in []byte) []byte {
	var out []byte
	acc, bits := uint32(0), uint(0)
	for _, b := range in {
		acc = acc<<8 | uint32(b)
		bits += 8
		for bits >= 5 {
			bits -= 5
			out = append(out, byte(acc>>bits)&31)
		}
	}
	if bits > 0 {
		out = append(out, byte(acc<<(5-bits))&31)
	}
	return out
}

// HDWallet is the harness's own view of a wallet derived from a mnemonic.
type HDWallet struct {
	ID          string
	acct        *xkey
	ext         *xkey // external branch (private)
	intl        *xkey
	cache       map[uint32]*HDAddr
	icache      map[uint32]*HDAddr
	Secrets     [][]byte // secret byte strings for C05 scanning
	NonStandard bool
}

// HDAddr is one derived address.
type HDAddr struct {
	Index      uint32
	Internal   bool
	PubKey     []byte // compressed
	Priv       []byte // 32 bytes
	Redeem     []byte
	ScriptHash []byte // sha256(redeem)
	PkScript   []byte // OP_0 <32-byte hash>
}

// NewHDWallet derives account m/44'/coin'/1' from mnemonic+passphrase. When
// wantID is non-empty and the BIP-32 derivation yields another id, the
// btcd-compatible variant is tried (NonStandard is set when it was needed).
//
//go:norace
func NewHDWallet(mnemonic, passphrase string, coin uint32, wantID string) (*HDWallet, error) {
	w, err := newHDWallet(mnemonic, passphrase, coin, false)
	if err != nil {
		return nil, err
	}
	if wantID != "" && w.ID != wantID {
		w2, err := newHDWallet(mnemonic, passphrase, coin, true)
		if err == nil && w2.ID == wantID {
			w2.NonStandard = true
			return w2, nil
		}
	}
	return w, nil
}

//go:norace
func newHDWallet(mnemonic, passphrase string, coin uint32, unpadded bool) (*HDWallet, error) {
	seed := bip39Seed(mnemonic, passphrase)
	m, err := masterKey(seed)
	if err != nil {
		return nil, err
	}
	m.unpadded = unpadded
	m.isMaster = true
	path := []uint32{44 + hardened, coin + hardened, 1 + hardened}
	k := m
	chainKeys := []*xkey{m}
	for _, p := range path {
		if k, err = k.child(p); err != nil {
			return nil, err
		}
		chainKeys = append(chainKeys, k)
	}
	w := &HDWallet{acct: k, cache: map[uint32]*HDAddr{}, icache: map[uint32]*HDAddr{}}
	h := hash160(compress(k.pubX, k.pubY))
	data := append([]byte{15}, convertBits8to5(h)...)
	w.ID = bech32Encode("ac", data)
	if w.ext, err = k.child(0); err != nil {
		return nil, err
	}
	if w.intl, err = k.child(1); err != nil {
		return nil, err
	}
	w.Secrets = append(w.Secrets, seed)
	for _, ck := range append(chainKeys, w.ext, w.intl) {
		w.Secrets = append(w.Secrets, pad32(ck.priv))
	}
	return w, nil
}

//go:norace
func pad32(k *big.Int) []byte {
	out := make([]byte, 32)
	b := k.Bytes()
	copy(out[32-len(b):], b)
	return out
}

// Addr returns the external address at index i (nil if the index is invalid,
// which has probability ~2^-127 and is skipped by the wallet as well).
//
//go:norace
func (w *HDWallet) Addr(i uint32) *HDAddr { return w.addr(i, false) }

//go:norace
func (w *HDWallet) addr(i uint32, internal bool) *HDAddr {
	c, br := w.cache, w.ext
	if internal {
		c, br = w.icache, w.intl
	}
	if a, ok := c[i]; ok {
		return a
	}
	// public derivation from the neutered branch key and private derivation
	// must agree; use public derivation for the address and private for the key.
	pubChild, err := br.neuter().child(i)
	if err != nil {
		return nil
	}
	privChild, err := br.child(i)
	if err != nil {
		return nil
	}
	pk := compress(pubChild.pubX, pubChild.pubY)
	// redeem script: OP_1 <33-byte pubkey> OP_1 OP_CHECKMULTISIG
	redeem := append([]byte{0x51, 33}, pk...)
	redeem = append(redeem, 0x51, 0xae)
	sh := sha256.Sum256(redeem)
	a := &HDAddr{Index: i, Internal: internal, PubKey: pk, Priv: pad32(privChild.priv), Redeem: redeem, ScriptHash: sh[:]}
	a.PkScript = append([]byte{0x00, 32}, sh[:]...)
	c[i] = a
	return a
}
