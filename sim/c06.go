package sim

import (
	"errors"
	"fmt"
)

//go:norace
func init() { Runners["C06"] = runC06 }

// crashCtx tracks what the harness cannot know after a crash.
type crashCtx struct {
	inflightCreates int            // CreateWallet calls cut by a crash (a wallet unknown to the harness may exist)
	pendingImports  []*WalletState // imports cut by a crash: the wallet may or may not exist
	crashes         int
}

// RecoverCrash performs the crash (all volatile state and goroutines of the
// instance are abandoned, the disk survives), reopens the database on the
// crash image and starts the wallet again. crashPlan[i] is the commit index at
// which incarnation i+2 dies (0 = never).
//
//go:norace
func (w *World) RecoverCrash(inst *Instance, nextCrash func(incarnation int) int) error {
	t := w.Plan
	for tries := 0; tries < 6; tries++ {
		inst.Crash()
		w.Stat("probe.crash_recovered")
		// the node keeps following its peers: in a third of the recoveries the
		// chain moves while the process is down and while it starts again
		// (catch-up and queued announcements overlap, see StartMoving)
		moving := t.Int(3) == 1 // (not Bool: after a crash the tape of the fault-free twin is re-read, its values are small)
		if moving {
			for k := t.Int(3); k > 0; k-- {
				if t.Bool(70) {
					w.MineOnTip(t, 70)
				} else {
					w.Fork(t, 1+t.Int(3), 1+t.Int(2), 50, 0)
				}
				w.Stat("op.env_while_down")
			}
		}
		if err := inst.Open(); err != nil {
			return fmt.Errorf("reopen after crash: %w", err)
		}
		if nextCrash != nil {
			inst.DB.CrashAtCommit = nextCrash(inst.Opens)
		}
		var err error
		if moving {
			err = inst.StartMoving(t, 2)
			if errors.Is(err, ErrCrashed) {
				err = nil
			}
			w.Stat("probe.recovery_while_chain_moves")
		} else {
			err = inst.StartSolo()
		}
		if w.S.CrashRequested || inst.Dead {
			w.Stat("probe.crash_during_restart")
			continue
		}
		if err != nil {
			return fmt.Errorf("Start after crash: %w", err)
		}
		return nil
	}
	return errors.New("crashed 6 times in a row")
}

// CheckInstance is the end-of-history oracle shared by the crash and fault
// properties: fair quiescence, followers alive, tasks finished, wallet set as
// acknowledged, every wallet's observation equal to the ledger model.
//
//go:norace
func (w *World) CheckInstance(inst *Instance, class string, cc *crashCtx) {
	pending := len(inst.Pending)
	n, ok := w.S.Quiesce(6000 + 300*pending)
	if w.S.CrashRequested {
		return
	}
	if !ok {
		w.Violate(class+".liveness", "not quiescent after %d fair steps with %d queued notifications: %v | wallet errors: %q", n, pending, w.S.ParkedSummary(), w.RecentErrors(4))
		return
	}
	if len(w.S.FatalExits) > 0 {
		w.Violate(class+".follower-died", "a follower goroutine died through logging FATAL (os.Exit in production): %s", firstLines(w.S.FatalExits[0], 40))
		return
	}
	if len(w.S.Panics) > 0 {
		w.Violate(class+".panic", "%s", firstLines(w.S.Panics[0], 40))
		return
	}
	if !w.AllDelivered() {
		w.Violate(class+".liveness", "quiescent but %d notifications undelivered: %v", len(inst.Pending), w.S.ParkedSummary())
		return
	}
	ls, err := inst.ListWallets()
	if err != nil {
		if errors.Is(err, ErrCrashed) || w.S.CrashRequested || inst.Dead {
			return // an injected crash landed inside the check itself: the caller recovers and checks again
		}
		w.Violate(class+".wallets-error", "Wallets(): %v", err)
		return
	}
	listed := map[string]WalletListing{}
	for _, l := range ls {
		listed[l.ID] = l
		if !l.Ready || l.Removing {
			w.Violate(class+".task-unfinished", "at quiescence wallet %s is ready=%v removing=%v synced=%d; task queue=%d; %v",
				l.ID, l.Ready, l.Removing, l.Synced, inst.WM.SimTaskQueueLen(), w.S.ParkedSummary())
			return
		}
	}
	// resolve what a crash left unknown
	if cc != nil {
		var still []*WalletState
		for _, src := range cc.pendingImports {
			if _, ok := listed[src.ID]; ok {
				if _, known := inst.Wallets[src.ID]; !known {
					ws := &WalletState{ID: src.ID, Mnemonic: src.Mnemonic, Pass: src.Pass, HD: src.HD, Imported: true, Issued: src.Issued}
					inst.Wallets[ws.ID] = ws
					w.Gen.AddWalletParty(ws)
					w.Stat("probe.inflight_import_survived")
				}
			} else {
				still = append(still, src)
			}
		}
		cc.pendingImports = nil
		_ = still
	}
	for _, id := range inst.SortedWalletIDs() {
		ws := inst.Wallets[id]
		_, isListed := listed[id]
		switch {
		case ws.Uncertain:
			if isListed {
				ws.Uncertain, ws.Removing = false, false
			} else {
				delete(inst.Wallets, id)
				w.Stat("probe.inflight_op_resolved_absent")
			}
		case ws.Removing:
			if isListed {
				w.Violate(class+".removal-not-finished", "wallet %s whose removal was accepted is still listed at quiescence", id)
				return
			}
			delete(inst.Wallets, id)
			w.Removed = append(w.Removed, ws)
		case !isListed:
			w.Violate(class+".wallet-lost", "acknowledged wallet %s is not listed any more", id)
			return
		}
	}
	for id := range listed {
		if _, known := inst.Wallets[id]; !known {
			if cc != nil && cc.inflightCreates > 0 {
				w.Stat("probe.inflight_create_survived")
				continue
			}
			w.Violate(class+".phantom-wallet", "wallet %s is listed but was never acknowledged to the caller", id)
			return
		}
	}
	w.CheckLedger(inst, class)
	if len(w.Violations) > 0 || w.S.CrashRequested || inst.Dead {
		return
	}
	// the pending set lives in the store too: after whatever happened nothing
	// confirmed or conflicted may stay pending and everything reads back
	// (rolled-back transactions are what populates it in these histories)
	if pend, ok := w.PendingSet(inst); ok && !(w.S.CrashRequested || inst.Dead) {
		w.WalletsComeAndGo = true
		w.CheckPendingGlobal(inst, pend, nil, class)
	}
}

// runHistory executes a generated history of chain and wallet operations on
// inst, handling injected crashes. It is shared by C06 (crash enumeration) and
// C18 (storage-fault enumeration).
//
//go:norace
func runHistory(w *World, inst *Instance, p map[string]int, class string, cc *crashCtx, nextCrash func(int) int) {
	t := w.Plan
	nOps := 3 + t.Int(param(p, "ops", 18))
	alive := func() bool {
		if w.S.CrashRequested || inst.Dead {
			cc.crashes++
			if err := w.RecoverCrash(inst, nextCrash); err != nil {
				w.Violate(class+".restart-failed", "%v", err)
				return false
			}
			// after the restart the harness checks the recovered state right
			// away in half of the runs, otherwise it just goes on
			if t.Bool(50) {
				w.CheckInstance(inst, class, cc)
			}
		}
		return len(w.Violations) == 0
	}
	noteErr := func(err error, ws *WalletState) {
		if errors.Is(err, ErrCrashed) && ws != nil {
			ws.Uncertain = true
		}
	}
	for i := 0; i < nOps && alive(); i++ {
		switch t.Weighted([]int{10, 3, 3, 3, 2, 2, 2, 1, param(p, "burstw", 1)}) {
		case 0:
			w.MineOnTip(t, 70)
		case 1:
			w.Fork(t, 1+t.Int(4), 1+t.Int(2), 50, 2)
		case 2:
			w.runSteps(1 + t.Int(10))
		case 3: // new address
			ids := liveWallets(inst)
			if len(ids) == 0 {
				break
			}
			id := ids[t.Int(len(ids))]
			if _, err := inst.Use(id, true); err == nil {
				inst.NewAddress(t.Bool(25), t.Bool(60))
			}
		case 4: // remove a wallet
			ids := liveWallets(inst)
			if len(ids) <= 1 {
				break
			}
			id := ids[t.Int(len(ids))]
			ws := inst.Wallets[id]
			err := inst.RemoveWallet(id, ws.Pass, t.Bool(50))
			noteErr(err, ws)
		case 5: // re-import a removed wallet
			if len(w.Removed) == 0 {
				break
			}
			src := w.Removed[t.Int(len(w.Removed))]
			if _, exists := inst.Wallets[src.ID]; exists {
				break
			}
			nw, err := inst.ImportMnemonic(src, uint32(len(src.Issued)), t.Bool(50))
			if err == nil {
				nw.Issued = src.Issued
				w.Gen.AddWalletParty(nw)
			} else if errors.Is(err, ErrCrashed) {
				cc.pendingImports = append(cc.pendingImports, src)
			}
		case 6: // create another wallet
			if len(inst.Wallets) >= 5 {
				break
			}
			ws, err := inst.CreateWallet(fmt.Sprintf("extra%dPass", len(inst.Wallets)), 128, t.Bool(50))
			if err == nil {
				if _, e2 := inst.Use(ws.ID, true); e2 == nil {
					inst.NewAddress(false, true)
				}
			} else if errors.Is(err, ErrCrashed) {
				cc.inflightCreates++
			}
		case 8:
			// burst: background tasks requested back to back while the worker
			// gets (almost) no steps - the admission limit is used up: one
			// task in the worker's hands, three waiting
			first := true
			for k := 0; k < 5 && !(w.S.CrashRequested || inst.Dead); k++ {
				ids := liveWallets(inst)
				var src *WalletState
				for _, r := range w.Removed {
					if _, exists := inst.Wallets[r.ID]; !exists {
						src = r
						break
					}
				}
				accepted := false
				switch {
				case len(ids) > 1 && (src == nil || t.Bool(70)):
					id := ids[t.Int(len(ids))]
					ws := inst.Wallets[id]
					err := inst.RemoveWallet(id, ws.Pass, true)
					noteErr(err, ws)
					accepted = err == nil
				case src != nil:
					nw, err := inst.ImportMnemonic(src, uint32(len(src.Issued)), true)
					if err == nil {
						nw.Issued = src.Issued
						w.Gen.AddWalletParty(nw)
						accepted = true
					} else if errors.Is(err, ErrCrashed) {
						cc.pendingImports = append(cc.pendingImports, src)
					}
				}
				if accepted && first && !(w.S.CrashRequested || inst.Dead) {
					// let the worker take the first task out of the queue
					first = false
					w.runSteps(1 + t.Int(4))
				}
			}
			if !(w.S.CrashRequested || inst.Dead) && inst.WM.SimTaskQueueLen() >= 3 {
				w.Stat("probe.task_queue_full")
				if wg := inst.workerG; wg != nil && !wg.done && wg.parked != "worker.select" && wg.parked != "worker.init" {
					w.Stat("probe.four_tasks_unfinished")
				}
			}
			w.Stat("op.task_burst")
		case 7: // mid-run check
			if !(w.S.CrashRequested || inst.Dead) {
				w.CheckInstance(inst, class, cc)
				w.Stat("check.midrun")
			}
		}
		if !(w.S.CrashRequested || inst.Dead) {
			w.runSteps(t.Int(5))
		}
		if len(w.S.FatalExits) > 0 || len(w.S.Panics) > 0 {
			break
		}
	}
	if alive() {
		w.CheckInstance(inst, class, cc)
		// a crash may still fire during the final drain
		if (w.S.CrashRequested || inst.Dead) && alive() {
			w.CheckInstance(inst, class, cc)
		}
	}
}

//go:norace
func liveWallets(inst *Instance) []string {
	var out []string
	for _, id := range inst.SortedWalletIDs() {
		ws := inst.Wallets[id]
		if !ws.Removing && !ws.Uncertain {
			out = append(out, id)
		}
	}
	return out
}

// runC06: a history with background imports and removals; params crashk /
// crashk2 give the commit indexes at which the first / second incarnation of
// the wallet process dies (the driver enumerates every k of the fault-free
// twin). The oracle is the never-stopped behaviour: at quiescence the wallet
// set is what was acknowledged and every wallet equals the ledger model.
//
//go:norace
func runC06(w *World, p map[string]int) {
	t := w.Plan
	w.SetKnobs(drawKnobs(w))
	inst := w.NewInstance("A")
	if err := inst.Open(); err != nil {
		w.Violate("C06.harness", "%v", err)
		return
	}
	nW := 1 + t.Weighted([]int{4, 4, 2})
	if err := setupWallets(w, inst, nW); err != nil {
		w.Violate("C06.setup", "%v", err)
		return
	}
	// the crash counter starts after the set-up commits
	base := inst.DB.Commits
	if k := param(p, "crashk", 0); k > 0 {
		inst.DB.CrashAtCommit = base + k
	}
	baseWrites := inst.Disk.Writes
	if kw := param(p, "crashw", 0); kw > 0 {
		// crash inside the kw-th storage write after set-up: the write is
		// torn at a small byte offset and the process dies
		d := inst.Disk
		d.CrashAtWrite = baseWrites + kw
		d.TornAt = (kw * 13) % 97
		d.OnCrash = func() {
			w.S.mu.Lock()
			w.S.CrashRequested = true
			inst.Dead = true
			w.S.mu.Unlock()
			w.Stat("fault.torn_write")
			w.S.Abandon()
		}
	}
	nextCrash := func(inc int) int {
		if inc == 2 {
			return param(p, "crashk2", 0)
		}
		return 0
	}
	cc := &crashCtx{}
	if err := inst.StartSolo(); err != nil && !(w.S.CrashRequested || inst.Dead) {
		w.Violate("C06.start", "Start: %v", err)
		return
	}
	runHistory(w, inst, p, "C06", cc, nextCrash)
	commits := 0
	if inst.DB != nil {
		commits = inst.DB.Commits
	}
	if cc.crashes == 0 {
		w.Extra["commits"] = commits - base
		w.Extra["writes"] = inst.Disk.Writes - baseWrites
	}
	w.Stats["fault.crash_runs"] = 0
	if cc.crashes > 0 {
		w.Stats["fault.crash_runs"] = 1
	}
	w.Sample = fmt.Sprintf("wallets=%d crashk=%d crashw=%d crashk2=%d crashes=%d height=%d removals=%d imports=%d forks=%d", nW,
		param(p, "crashk", 0), param(p, "crashw", 0), param(p, "crashk2", 0), cc.crashes, w.Node.Tip().Height, w.Stats["op.remove_wallet"], w.Stats["op.import_mnemonic"], w.Stats["op.fork"])
}
