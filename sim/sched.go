package sim

// The scheduler. Simulated threads are real goroutines inside one synctest
// bubble; each announces itself at a gate and blocks on its private channel.
// The root goroutine (the scheduler) picks one enabled parked goroutine from
// the schedule tape, releases it and calls synctest.Wait(), which returns when
// every goroutine in the bubble is durably blocked again. The choice of who
// runs is therefore always the simulator's.

import (
	"fmt"
	"hash/fnv"
	"os"
	"runtime"
	"sort"
	"strconv"
	"strings"
	"sync"
	"sync/atomic"
	"testing/synctest"
	"time"
)

type Role int

const (
	RoleHandler Role = iota
	RoleWorker
	RoleStarter
	RoleStopper
	RoleClient
)

//go:norace
func (r Role) String() string {
	return [...]string{"handler", "worker", "starter", "stopper", "client"}[r]
}

// G is one managed goroutine.
type G struct {
	id        int64
	seq       int
	Role      Role
	Inst      *Instance
	Name      string
	parked    string // gate name, "" while running or blocked elsewhere
	ch        chan struct{}
	done      bool
	inc       int  // incarnation of the instance this goroutine belongs to
	gateReads bool // park at every read of read-only transactions (C17)
	nodeGates bool // park at every chain-database query
	// per-goroutine storage-call counter for fault addressing
	dbCalls int
	work    int // queries made so far (client calls, see Sched.WorkBudget)
}

// gone reports whether the goroutine belongs to a crashed incarnation.
//
//go:norace
func (g *G) gone() bool {
	return g.Inst != nil && (g.Inst.Dead || g.inc != g.Inst.Opens)
}

//go:norace
func (g *G) String() string {
	inst := ""
	if g.Inst != nil {
		inst = g.Inst.Name + "."
	}
	return inst + g.Role.String()
}

// Tape is a recorded/replayed sequence of bounded integer choices.
type Tape struct {
	Vals []int
	pos  int
	rng  *Rng // nil in replay mode
	// when replaying and exhausted, choices are 0
	Used int
}

//go:norace
func (t *Tape) Int(n int) int {
	if n <= 1 {
		return 0
	}
	var v int
	if t.pos < len(t.Vals) {
		v = t.Vals[t.pos] % n
		if v < 0 {
			v = -v
		}
	} else if t.rng != nil {
		v = t.rng.Intn(n)
		t.Vals = append(t.Vals, v)
	} else {
		v = 0
	}
	t.pos++
	t.Used = t.pos
	return v
}

// Weighted picks index i with probability w[i]/sum; index 0 is the "simplest".
//
//go:norace
func (t *Tape) Weighted(w []int) int {
	sum := 0
	for _, x := range w {
		sum += x
	}
	v := t.Int(sum)
	for i, x := range w {
		if v < x {
			return i
		}
		v -= x
	}
	return 0
}

//go:norace
func (t *Tape) Bool(pct int) bool { return t.Int(100) < pct }

// Sched is the deterministic scheduler.
type Sched struct {
	mu    hmu
	gs    map[int64]*G
	order []*G
	seq   int

	Tape *Tape

	lockHolder *G             // simulated process-wide wallet-db writer lock
	beginVia   map[int64]bool // goroutines inside SimDB.BeginTx on their way to the writer-lock hook
	rootHolds  bool

	starting *Instance // instance whose Start is in progress (children register to it)

	Steps     int
	TraceHash uint64
	Trace     []string
	TraceOn   bool
	rr        int // round-robin cursor for fair mode

	dead chan struct{} // never closed: abandoned goroutines block here

	CrashRequested bool
	ClockNudges    int // times the clock was advanced because a goroutine waited off-gate with nothing enabled
	// WorkBudget, when > 0, bounds the number of storage and chain-node queries
	// one client call may make; a call that exceeds it is ended (recorded in
	// Stalls): it is doing an unbounded amount of work instead of answering.
	WorkBudget int
	Stalls     []string
	FatalExits []string // logrus.Fatal interceptions
	Panics     []string

	// statistics
	GateHits map[string]int
}

//go:norace
func NewSched(tape *Tape) *Sched {
	return &Sched{gs: map[int64]*G{}, Tape: tape, dead: make(chan struct{}), GateHits: map[string]int{}, beginVia: map[int64]bool{}}
}

//go:norace
func goid() int64 {
	var buf [64]byte
	n := runtime.Stack(buf[:], false)
	// "goroutine 123 [running]:"
	s := string(buf[:n])
	s = strings.TrimPrefix(s, "goroutine ")
	if i := strings.IndexByte(s, ' '); i > 0 {
		id, _ := strconv.ParseInt(s[:i], 10, 64)
		return id
	}
	return -1
}

//go:norace
func (s *Sched) register(id int64, role Role, inst *Instance, name string) *G {
	g := &G{id: id, seq: s.seq, Role: role, Inst: inst, Name: name, ch: make(chan struct{})}
	s.seq++
	s.gs[id] = g
	s.order = append(s.order, g)
	if inst != nil {
		g.nodeGates = inst.W.NodeGates
		g.inc = inst.Opens
	}
	// The handler and the worker are started back to back by the wallet and
	// register themselves at their first gate, in whatever order the Go
	// runtime happens to run them (the race-detector build randomises it).
	// The canonical order must not depend on that: handler before worker.
	if role == RoleHandler && inst != nil {
		for i, o := range s.order {
			if o != g && o.Role == RoleWorker && o.Inst == inst && o.inc == g.inc {
				j := len(s.order) - 1
				s.order[i], s.order[j] = s.order[j], s.order[i]
				o.seq, g.seq = g.seq, o.seq
				break
			}
		}
	}
	return g
}

// Current returns the managed goroutine record of the caller, or nil.
//
//go:norace
func (s *Sched) Current() *G {
	id := goid()
	s.mu.Lock()
	defer s.mu.Unlock()
	return s.gs[id]
}

// Go starts fn as a managed goroutine; it parks at "<role>.start" first so the
// scheduler decides when it begins.
//
//go:norace
func (s *Sched) Go(role Role, inst *Instance, name string, fn func()) *G {
	ready := make(chan *G)
	go func() {
		id := goid()
		s.mu.Lock()
		g := s.register(id, role, inst, name)
		s.mu.Unlock()
		raceOff()
		ready <- g
		raceOn()
		defer func() {
			s.mu.Lock()
			g.done = true
			g.parked = ""
			s.mu.Unlock()
		}()
		s.Gate(role.String() + ".start")
		fn()
	}()
	// synctest.Wait makes everything the other goroutines did before they
	// blocked happen-before its return (the runtime tells the race detector
	// so); the root goroutine must not carry that on to the goroutines it
	// talks to next (notification channels, goroutine creation)
	raceOff()
	g := <-ready
	synctest.Wait()
	raceOn()
	return g
}

// Gate parks the calling goroutine if it is managed.
//
//go:norace
func (s *Sched) Gate(point string) {
	id := goid()
	s.mu.Lock()
	g := s.gs[id]
	if g == nil {
		if s.starting != nil && (strings.HasPrefix(point, "handle.") || strings.HasPrefix(point, "worker.")) {
			role := RoleHandler
			if strings.HasPrefix(point, "worker.") {
				role = RoleWorker
			}
			g = s.register(id, role, s.starting, "")
			if role == RoleHandler {
				s.starting.handlerG = g
			} else {
				s.starting.workerG = g
			}
		} else {
			s.mu.Unlock()
			return
		}
	}
	if strings.HasSuffix(point, ".exit") {
		g.done = true
		g.parked = ""
		s.mu.Unlock()
		return
	}
	switch point {
	case "worker.suspend", "worker.resume", "worker.resumed", "remove.round", "handle.suspended", "stop.close":
		// never park at a hand-shake gate with a short-section mutex locked
		inst := g.Inst
		s.mu.Unlock()
		if inst != nil && inst.shortMutexHeld() {
			s.mu.Lock()
			s.GateHits["skipped(mutex held)."+point]++
			s.mu.Unlock()
			return
		}
		s.mu.Lock()
	}
	if g.gone() {
		s.mu.Unlock()
		raceOff()
		<-s.dead
		return
	}
	g.parked = point
	s.GateHits[point]++
	s.mu.Unlock()
	raceOff()
	<-g.ch
	raceOn()
	if g.gone() {
		raceOff()
		<-s.dead
	}
}

// workBudgetExceeded is the panic value that ends a client call which went
// over the work budget.
type workBudgetExceeded struct{ n int }

// Work is called by the storage and node seams once per query.
//
//go:norace
func (s *Sched) Work() {
	Progress.Add(1) // a call grinding through the store is progress for the watchdog
	if s.WorkBudget == 0 {
		return
	}
	id := goid()
	s.mu.Lock()
	g := s.gs[id]
	over := false
	n := 0
	if g != nil && g.Role == RoleClient {
		g.work++
		n = g.work
		over = g.work > s.WorkBudget
	}
	s.mu.Unlock()
	if over {
		panic(workBudgetExceeded{n})
	}
}

// Abandon makes the calling goroutine block forever (its instance crashed).
//
//go:norace
func (s *Sched) Abandon() { raceOff(); <-s.dead }

// PreferQuit implements masswallet.SimPreferQuit.
//
//go:norace
func (s *Sched) PreferQuit() bool {
	g := s.Current()
	return g != nil && g.Inst != nil && g.Inst.QuitClosed
}

// Progress is bumped at every scheduler step; the worker's watchdog (outside
// the bubble, real time) ends the process when it stops moving.
var Progress atomic.Int64

// hmu is a mutex of the simulator itself: invisible to the race detector as
// a synchronisation (see racehooks_race.go).
type hmu struct{ m sync.Mutex }

//go:norace
func (h *hmu) Lock() { raceOff(); h.m.Lock() }

//go:norace
func (h *hmu) Unlock() { h.m.Unlock(); raceOn() }

// Action is one thing the scheduler can do next.
type Action struct {
	G    *G
	Kind string // "run", "deliver", "suspend", "quit"
}

//go:norace
func (a Action) String() string { return a.G.String() + "@" + a.G.parked + "/" + a.Kind }

//go:norace
func (s *Sched) workerBlocked(inst *Instance) bool {
	w := inst.workerG
	return w != nil && !w.done && w.parked == "" && !w.gone()
}

// Enabled lists the enabled actions in canonical order (creation order of the
// goroutines, which is itself decided by the schedule).
//
//go:norace
func (s *Sched) Enabled() []Action {
	s.mu.Lock()
	defer s.mu.Unlock()
	var out []Action
	for _, g := range s.order {
		if g.done || g.parked == "" || g.gone() {
			continue
		}
		switch g.parked {
		case "handle.select":
			inst := g.Inst
			if inst.QuitClosed {
				out = append(out, Action{g, "quit"})
				break
			}
			// never make two cases of the handler's select ready at once: Go
			// would choose between them at random. While the worker is
			// blocked in its suspend send only that case is offered; the
			// other order (block first) is reached by delivering before the
			// worker is released from its worker.suspend gate.
			if s.workerBlocked(inst) {
				out = append(out, Action{g, "suspend"})
			} else if len(inst.Pending) > 0 {
				// the wallet has one buffered channel for blocks and one for
				// unconfirmed transactions: each is FIFO, but which of the
				// two its select serves first is open when both hold
				// something. The head of either queue may be delivered.
				fb, ft := firstOfKind(inst.Pending)
				switch {
				case fb >= 0 && ft >= 0 && fb < ft:
					out = append(out, Action{g, "deliver"}, Action{g, "deliver-tx"})
				case fb >= 0 && ft >= 0:
					out = append(out, Action{g, "deliver"}, Action{g, "deliver-block"})
				default:
					out = append(out, Action{g, "deliver"})
				}
			}
		case "worker.select":
			inst := g.Inst
			if inst.QuitClosed {
				out = append(out, Action{g, "quit"})
			} else if inst.WM != nil && inst.WM.SimTaskQueueLen() > 0 {
				out = append(out, Action{g, "run"})
			}
		case "db.begin":
			if s.lockHolder == nil && !s.rootHolds {
				out = append(out, Action{g, "run"})
			}
		default:
			out = append(out, Action{g, "run"})
		}
	}
	return out
}

// firstOfKind returns the positions of the oldest block and the oldest
// transaction notification (-1 if none).
//
//go:norace
func firstOfKind(p []delivery) (fb, ft int) {
	fb, ft = -1, -1
	for i, d := range p {
		if d.block != nil && fb < 0 {
			fb = i
		}
		if d.tx != nil && ft < 0 {
			ft = i
		}
		if fb >= 0 && ft >= 0 {
			break
		}
	}
	return
}

// blockedOffGate reports whether some live managed goroutine is neither parked
// at a gate nor finished: it waits for something inside the wallet - a
// channel, a WaitGroup, or a timer.
//
//go:norace
func (s *Sched) blockedOffGate() bool {
	s.mu.Lock()
	defer s.mu.Unlock()
	for _, g := range s.order {
		if !g.done && g.parked == "" && !g.gone() {
			return true
		}
	}
	return false
}

// enabledAfterTimers is called when nothing is enabled: if a goroutine waits
// off-gate it may be waiting for a timer (a poll loop, a time-out), so the
// simulated clock jumps ahead - a few times, a second each - before the state
// counts as stuck. Nothing in the wallet on this tree sleeps; a change that
// adds a legitimate timed wait must not read as a deadlock.
//
//go:norace
func (s *Sched) enabledAfterTimers() []Action {
	for i := 0; i < 3 && s.blockedOffGate(); i++ {
		raceOff()
		time.Sleep(time.Second)
		synctest.Wait()
		raceOn()
		s.ClockNudges++
		if en := s.Enabled(); len(en) > 0 {
			return en
		}
	}
	return nil
}

//go:norace
func (s *Sched) note(a Action) {
	h := fnv.New64a()
	var b [8]byte
	for i := 0; i < 8; i++ {
		b[i] = byte(s.TraceHash >> (8 * uint(i)))
	}
	h.Write(b[:])
	h.Write([]byte(a.String()))
	s.TraceHash = h.Sum64()
	if s.TraceOn {
		s.Trace = append(s.Trace, fmt.Sprintf("%d %s", s.Steps, a.String()))
	}
}

// Do performs one action and waits for quiescence.
//
//go:norace
func (s *Sched) Do(a Action) {
	Progress.Add(1)
	s.Steps++
	s.note(a)
	g := a.G
	var refill *Instance
	if a.Kind == "suspend" && g.Inst != nil {
		// the handler must take the worker's hand-shake, not a queued
		// notification: the channels are empty while its select runs
		g.Inst.drainReal()
		refill = g.Inst
	}
	s.mu.Lock()
	switch a.Kind {
	case "deliver", "deliver-tx", "deliver-block":
		// "deliver" takes the oldest notification; the other two take the
		// head of the other queue (overtaking notifications of the first kind)
		k := 0
		fb, ft := firstOfKind(g.Inst.Pending)
		if a.Kind == "deliver-tx" {
			k = ft
		} else if a.Kind == "deliver-block" {
			k = fb
		}
		d := g.Inst.Pending[k]
		g.Inst.Pending = append(append([]delivery(nil), g.Inst.Pending[:k]...), g.Inst.Pending[k+1:]...)
		if k > 0 {
			g.Inst.W.Stats["probe.notification_overtook_other_queue"]++
		}
		s.mu.Unlock()
		// only the chosen notification may be ready when the select runs
		g.Inst.drainReal()
		refill = g.Inst
		d.inChan = false
		if os.Getenv("VERIF_EXP_INJECT_OFF") != "" {
			raceOff()
		}
		g.Inst.inject(d)
		if os.Getenv("VERIF_EXP_INJECT_OFF") != "" {
			raceOn()
		}
		s.mu.Lock()
	}
	if g.parked == "db.begin" {
		s.lockHolder = g
	}
	if g.parked == "stop.close" && g.Inst != nil {
		g.Inst.QuitClosed = true
	}
	g.parked = ""
	s.mu.Unlock()
	raceOff()
	g.ch <- struct{}{}
	synctest.Wait()
	raceOn()
	if refill != nil {
		refill.refillReal()
	}
}

// Step picks one enabled action from the tape. It returns false when nothing
// is enabled.
//
//go:norace
func (s *Sched) Step() bool {
	en := s.Enabled()
	if len(en) == 0 {
		if en = s.enabledAfterTimers(); len(en) == 0 {
			return false
		}
	}
	i := s.Tape.Int(len(en))
	s.Do(en[i])
	return true
}

// StepFair picks enabled actions round-robin over goroutines (used once the
// environment has stopped changing: the liveness form).
//
//go:norace
func (s *Sched) StepFair() bool {
	en := s.Enabled()
	if len(en) == 0 {
		if en = s.enabledAfterTimers(); len(en) == 0 {
			return false
		}
	}
	sort.SliceStable(en, func(i, j int) bool { return en[i].G.seq < en[j].G.seq })
	// first action whose goroutine seq is > cursor, else wrap
	pick := en[0]
	for _, a := range en {
		if a.G.seq > s.rr {
			pick = a
			break
		}
	}
	s.rr = pick.G.seq
	s.Do(pick)
	return true
}

// RunUntilDone steps (from the tape) until g has finished; it returns false if
// nothing is enabled while g is still not done (deadlock) or the budget ends.
//
//go:norace
func (s *Sched) RunUntilDone(g *G, budget int) bool {
	for i := 0; i < budget; i++ {
		if g.done {
			return true
		}
		if s.CrashRequested {
			return false
		}
		if !s.Step() {
			return g.done
		}
	}
	return g.done
}

// RunSolo releases only g (and whoever holds the writer lock it waits for)
// until g is done.
//
//go:norace
func (s *Sched) RunSolo(g *G, budget int) bool {
	for i := 0; i < budget && !g.done; i++ {
		if s.CrashRequested {
			return false
		}
		if !s.SoloStep(g) {
			return g.done
		}
	}
	return g.done
}

// SoloStep performs one step in favour of g: g itself if it is enabled, else
// the holder of the writer lock g may be waiting for, else (g is blocked, not
// parked, waiting for others - e.g. Stop waiting for the followers) one fair
// step of the others. It returns false when nothing is enabled.
//
//go:norace
func (s *Sched) SoloStep(g *G) bool {
	en := s.Enabled()
	var pick *Action
	for k := range en {
		if en[k].G == g {
			pick = &en[k]
			break
		}
	}
	if pick == nil {
		s.mu.Lock()
		lh := s.lockHolder
		s.mu.Unlock()
		for k := range en {
			if lh != nil && en[k].G == lh {
				pick = &en[k]
				break
			}
		}
	}
	if pick == nil {
		return s.StepFair()
	}
	s.Do(*pick)
	return true
}

// Quiesce runs fairly until nothing is enabled; returns steps used and whether
// the budget sufficed.
//
//go:norace
func (s *Sched) Quiesce(budget int) (int, bool) {
	n := 0
	for n < budget {
		if s.CrashRequested {
			return n, true
		}
		if !s.StepFair() {
			return n, true
		}
		n++
	}
	return n, len(s.Enabled()) == 0
}

// ParkedSummary describes where everyone is (for deadlock reports).
//
//go:norace
func (s *Sched) ParkedSummary() []string {
	s.mu.Lock()
	defer s.mu.Unlock()
	var out []string
	for _, g := range s.order {
		st := g.parked
		if g.done {
			st = "done"
		} else if st == "" {
			st = "blocked(not at a gate)"
		}
		if g.gone() {
			continue
		}
		out = append(out, g.String()+": "+st)
	}
	return out
}

// dbLockRelease is called by SimDB after commit/rollback.
//
//go:norace
func (s *Sched) dbLockRelease(g *G) {
	s.mu.Lock()
	if g == nil {
		s.rootHolds = false
	} else if s.lockHolder == g {
		s.lockHolder = nil
	}
	s.mu.Unlock()
}

// dbLockRoot is called by SimDB when an unmanaged goroutine begins a write tx.
//
//go:norace
func (s *Sched) dbLockRoot() {
	s.mu.Lock()
	defer s.mu.Unlock()
	if s.lockHolder != nil || s.rootHolds {
		panic("sim harness: unmanaged write transaction while the simulated writer lock is held")
	}
	s.rootHolds = true
}

// ForgetInstance drops the goroutines of a crashed instance from lock
// ownership.
//
//go:norace
func (s *Sched) ForgetInstance(inst *Instance) {
	s.mu.Lock()
	defer s.mu.Unlock()
	if s.lockHolder != nil && s.lockHolder.Inst == inst {
		s.lockHolder = nil
	}
	if s.starting == inst {
		s.starting = nil
	}
}

// FreeWriterLock runs the goroutine that holds the simulated writer lock until
// it releases it (the root is about to run a write transaction itself, e.g.
// to open another instance's database; ldb shares one global batch buffer, so
// write transactions of different instances must not overlap either).
//
//go:norace
func (s *Sched) FreeWriterLock() {
	for i := 0; i < 100000; i++ {
		s.mu.Lock()
		lh := s.lockHolder
		s.mu.Unlock()
		if lh == nil || s.CrashRequested {
			return
		}
		var pick *Action
		en := s.Enabled()
		for k := range en {
			if en[k].G == lh {
				pick = &en[k]
			}
		}
		if pick == nil {
			if !s.StepFair() {
				return
			}
			continue
		}
		s.Do(*pick)
	}
}
