//go:build race

package sim

import "runtime"

// With the race detector on, the simulator's own hand-offs (scheduler lock,
// gate channels, stub locks) must not count as synchronisation of the wallet:
// they would order every access of every goroutine and hide all races.
// Synchronisation events between raceOff and raceOn are ignored by the
// detector; memory accesses still count.
func raceOff()        { runtime.RaceDisable() }
func raceOn()         { runtime.RaceEnable() }
func raceErrors() int { return runtime.RaceErrors() }

const raceBuild = true
