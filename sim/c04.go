package sim

// C04 (id/addresses are a function of the mnemonic; keys match addresses) and
// C05 (secrets never stored or returned in clear; only the right passphrase
// unlocks): two or three wallet instances with separate simulated disks on one
// node; histories of create / new address / sign / export / import keystore /
// import mnemonic / reveal mnemonic / remove attempt / public-passphrase change
// / restart / crash-restart. C05 keeps the complete write tape of every disk.

import (
	"bytes"
	"crypto/sha256"
	"encoding/hex"
	"errors"
	"fmt"
	"sort"
	"strings"

	"github.com/btcsuite/btcd/btcec"
	"github.com/massnetorg/mass-core/massutil"
	mwdb "massnet.org/mass-wallet/masswallet/db"
	"massnet.org/mass-wallet/masswallet/keystore"
)

//go:norace
func init() {
	Runners["C04"] = func(w *World, p map[string]int) { runKeys(w, p, "C04") }
	Runners["C05"] = func(w *World, p map[string]int) { runKeys(w, p, "C05") }
}

// keyWallet is the harness's cross-instance knowledge of one mnemonic.
type keyWallet struct {
	ws      *WalletState // canonical (first creation)
	secrets [][]byte
	names   []string
}

// secretsOf lists byte strings that must never appear in clear.
//
//go:norace
func secretsOf(ws *WalletState) ([][]byte, []string) {
	var out [][]byte
	var names []string
	add := func(n string, b []byte) {
		if len(b) >= 6 {
			out = append(out, b)
			names = append(names, n)
		}
	}
	add("mnemonic", []byte(ws.Mnemonic))
	words := strings.Fields(ws.Mnemonic)
	if len(words) >= 4 {
		add("mnemonic words 1-4", []byte(strings.Join(words[:4], " ")))
		add("mnemonic words (last 4)", []byte(strings.Join(words[len(words)-4:], " ")))
	}
	if ent, err := keystore.EntropyFromMnemonic(ws.Mnemonic); err == nil {
		add("entropy", ent)
		add("entropy(hex)", []byte(hex.EncodeToString(ent)))
	}
	add("private passphrase", []byte(ws.Pass))
	for i, s := range ws.HD.Secrets {
		n := "seed"
		if i > 0 {
			n = fmt.Sprintf("extended private key #%d scalar", i)
		}
		add(n, s)
		add(n+"(hex)", []byte(hex.EncodeToString(s)))
	}
	for i := uint32(0); i < uint32(len(ws.Issued))+2; i++ {
		a := ws.HD.Addr(i)
		add(fmt.Sprintf("private key of address %d", i), a.Priv)
		add(fmt.Sprintf("private key of address %d (hex)", i), []byte(hex.EncodeToString(a.Priv)))
	}
	return out, names
}

//go:norace
func scanFor(hay []byte, secrets [][]byte, names []string) string {
	for i, s := range secrets {
		if bytes.Contains(hay, s) {
			return names[i]
		}
	}
	return ""
}

// Restart stops the instance cleanly and starts it again on the same disk.
//
//go:norace
func (inst *Instance) Restart() error {
	if !inst.StopSolo() {
		return fmt.Errorf("Stop did not return: %v", inst.W.S.ParkedSummary())
	}
	if err := inst.Open(); err != nil {
		return err
	}
	return inst.StartSolo()
}

//go:norace
func runKeys(w *World, p map[string]int, prop string) {
	t := w.Plan
	k := drawKnobs(w)
	k.GapLimit = 30
	k.NodeGates = false
	w.SetKnobs(k)
	nInst := 2 + t.Int(2)
	var insts []*Instance
	for i := 0; i < nInst; i++ {
		inst := w.NewInstance(string(rune('A' + i)))
		inst.Disk.KeepTape = prop == "C05"
		if err := inst.Open(); err != nil {
			w.Violate(prop+".harness", "%v", err)
			return
		}
		if err := inst.StartSolo(); err != nil {
			w.Violate(prop+".start", "%v", err)
			return
		}
		insts = append(insts, inst)
	}
	var kws []*keyWallet
	bitsChoices := []int{128, 160, 192, 224, 256}
	wrongs := func(ws *WalletState) string {
		// (the right passphrase followed by NUL bytes: the key-derivation's HMAC
		// pads short keys with zeros, so this candidate derives the same key)
		c := []string{"", "a", ws.Pass + "1", ws.Pass[1:], strings.ToUpper(ws.Pass), "wrongPass123", string([]byte{0xff, 0x00, 0x41, 0x42, 0x43, 0x44}), PubPass, strings.Repeat("z", 41), ws.Pass + "\x00", ws.Pass + "\x00\x00\x00"}
		// near misses: only the last character differs, or the tail beyond some
		// prefix (a check that looks at a prefix, or at a truncated copy, takes them)
		if n := len(ws.Pass); n > 1 {
			last := byte('x')
			if ws.Pass[n-1] == 'x' {
				last = 'y'
			}
			c = append(c, ws.Pass[:n-1]+string(last), ws.Pass[:n-1])
			if n > 33 {
				c = append(c, ws.Pass[:32]+strings.Repeat("Q", n-32), ws.Pass[:32])
			}
		}
		return c[t.Int(len(c))]
	}
	// checkSecrets scans everything ever written by every instance.
	checkSecrets := func(where string) bool {
		if prop != "C05" {
			return true
		}
		for _, inst := range insts {
			tape := inst.Disk.Tape.Bytes()
			for _, kw := range kws {
				if n := scanFor(tape, kw.secrets, kw.names); n != "" {
					w.Violate("C05.secret-on-disk", "after %s: the %s of wallet %s appears in clear in the bytes instance %s wrote to its database", where, n, kw.ws.ID, inst.Name)
					return false
				}
			}
			if n := scanFor(tape, [][]byte{[]byte(inst.PubPass)}, []string{"public passphrase"}); n != "" && len(inst.PubPass) >= 6 {
				w.Violate("C05.secret-on-disk", "after %s: the %s appears in clear in the bytes instance %s wrote", where, n, inst.Name)
				return false
			}
		}
		w.Stat("check.disk_scan")
		return true
	}
	checkOutput := func(what string, out string, kw *keyWallet, allow string) bool {
		if prop != "C05" {
			return true
		}
		for i, s := range kw.secrets {
			if kw.names[i] == allow || (allow == "mnemonic" && strings.HasPrefix(kw.names[i], "mnemonic")) {
				continue
			}
			if bytes.Contains([]byte(out), s) {
				w.Violate("C05.secret-returned", "%s contains the %s of wallet %s in clear", what, kw.names[i], kw.ws.ID)
				return false
			}
		}
		return true
	}
	// refused: a wrong-passphrase attempt must fail with a passphrase error and change nothing
	refused := func(inst *Instance, what string, err error, commitsBefore, writesBefore int, kw *keyWallet) bool {
		if err == nil {
			w.Violate(prop+".wrong-passphrase-accepted", "%s succeeded with a wrong passphrase", what)
			return false
		}
		if inst.DB.Commits != commitsBefore || inst.Disk.Writes != writesBefore {
			w.Violate(prop+".refused-attempt-wrote", "%s with a wrong passphrase was refused (%v) but wrote to the database", what, err)
			return false
		}
		if !checkOutput("the error of "+what, err.Error(), kw, "") {
			return false
		}
		w.Stat("check.wrong_pass_refused")
		return true
	}
	find := func(inst *Instance, kw *keyWallet) *WalletState { return inst.Wallets[kw.ws.ID] }
	// verifyKeys: every issued address matches the derivation, and the key the
	// wallet signs with is the key the address commits to
	verifyKeys := func(inst *Instance, ws *WalletState) bool {
		if _, err := inst.Use(ws.ID, true); err != nil {
			w.Violate(prop+".use-failed", "UseWallet(%s) on %s: %v", ws.ID, inst.Name, err)
			return false
		}
		// internal-branch (change) addresses: a restore with an internal index
		// hint derives them; they must be the key chain's internal addresses
		// at every index, and sign with the keys they commit to
		type target struct {
			a     *HDAddr
			label string
		}
		var targets []target
		for _, ia := range ws.Issued {
			targets = append(targets, target{ws.HD.Addr(ia.Index), fmt.Sprintf("issued address index %d", ia.Index)})
		}
		var internals []target
		if am, aerr := inst.WM.SimKeystoreManager().GetAddrManagerByAccountID(ws.ID); aerr == nil && am != nil {
			var got []string
			for _, ma := range am.ManagedAddresses() {
				if ma.IsChangeAddr() {
					got = append(got, ma.String())
				}
			}
			sort.Strings(got)
			if uint32(len(got)) < ws.InternalN {
				w.Violate(prop+".address-derivation", "instance %s wallet %s: restored with internal index %d but holds %d internal addresses", inst.Name, ws.ID, ws.InternalN, len(got))
				return false
			}
			var want []string
			for i := 0; i < len(got); i++ {
				a := ws.HD.addr(uint32(i), true)
				var h [32]byte
				copy(h[:], a.ScriptHash)
				want = append(want, w.Gen.addrString(h))
				internals = append(internals, target{a, fmt.Sprintf("internal address index %d", i)})
			}
			sort.Strings(want)
			if strings.Join(got, ",") != strings.Join(want, ",") {
				w.Violate(prop+".address-derivation", "instance %s wallet %s: its %d internal-branch addresses are not the key chain's internal addresses 0..%d: got %v want %v", inst.Name, ws.ID, len(got), len(got)-1, got, want)
				return false
			}
			if len(got) > 0 {
				w.Stat("check.internal_addresses_match_derivation")
			}
		}
		// which key is asked for first after an unlock boundary matters (lazy
		// private derivation): internal first in half of the cases
		if t.Bool(50) {
			targets = append(internals, targets...)
		} else {
			targets = append(targets, internals...)
		}
		for _, tg := range targets {
			a := tg.a
			pub, perr := btcec.ParsePubKey(a.PubKey, btcec.S256())
			if perr != nil {
				continue
			}
			digest := sha256.Sum256(append([]byte("verif"), a.ScriptHash...))
			var sig *btcec.Signature
			var err error
			if !inst.RunCall("SignHash", true, func() { sig, err = inst.WM.SignHash(pub, digest[:], []byte(ws.Pass)) }) {
				return false
			}
			if err != nil {
				w.Violate(prop+".sign-failed", "instance %s wallet %s: SignHash for %s failed with the right passphrase: %v", inst.Name, ws.ID, tg.label, err)
				return false
			}
			if !sig.Verify(digest[:], pub) {
				w.Violate(prop+".key-mismatch", "instance %s wallet %s: the signature for %s does not verify under the public key the address commits to", inst.Name, ws.ID, tg.label)
				return false
			}
			w.Stat("check.key_matches_address")
			if a.Internal {
				w.Stat("check.internal_key_matches_address")
			}
		}
		// the address list equals the derivation at every index
		got, err := inst.Observe(ws.ID)
		if err != nil {
			w.Violate(prop+".observe-error", "%v", err)
			return false
		}
		have := map[string]bool{}
		for _, ab := range got.AddrBal {
			have[ab.Addr] = true
		}
		for _, ia := range ws.Issued {
			var h [32]byte
			copy(h[:], ws.HD.Addr(ia.Index).ScriptHash)
			if !have[w.Gen.addrString(h)] {
				w.Violate(prop+".address-mismatch", "instance %s wallet %s: address index %d of the key chain (%s) is not among the wallet's addresses", inst.Name, ws.ID, ia.Index, w.Gen.addrString(h))
				return false
			}
		}
		return true
	}
	nOps := 5 + t.Int(param(p, "ops", 22))
	for i := 0; i < nOps && len(w.Violations) == 0; i++ {
		inst := insts[t.Int(len(insts))]
		var kw *keyWallet
		if len(kws) > 0 {
			kw = kws[t.Int(len(kws))]
		}
		op := t.Weighted([]int{4, 8, 4, 3, 3, 3, 2, 2, 2, 4, 2})
		if kw == nil {
			op = 0
		}
		if w.LogOn {
			names := []string{"create", "new-address", "verify-keys", "export+import-keystore", "import-mnemonic", "reveal-mnemonic", "wrong-pass-attempt", "restart", "crash-restart", "mine", "change-pubpass"}
			id := ""
			if kw != nil {
				id = kw.ws.ID[:10]
			}
			w.Logf("op %d: %s on instance %s wallet %s", i, names[op], inst.Name, id)
		}
		switch op {
		case 0: // create
			if len(kws) >= 3 {
				break
			}
			bits := bitsChoices[t.Int(len(bitsChoices))]
			zeroLead := 0
			if t.Bool(25) {
				// entropy that starts with zero bytes (big-number round trips
				// drop them unless somebody pads)
				zeroLead = 1 + t.Int(4)
				w.Crypto.ZeroPrefix = zeroLead
			}
			// passphrases of every legal length, up to the maximum of 40
			passw := fmt.Sprintf("Priv%dpass#", len(kws))
			if t.Bool(35) {
				passw += strings.Repeat("Lng9", 8)[:23+t.Int(8)]
			}
			ws, err := inst.CreateWallet(passw, bits, true)
			w.Crypto.ZeroPrefix = 0
			if err != nil {
				w.Violate(prop+".create-failed", "CreateWallet(%d bits): %v", bits, err)
				break
			}
			if zeroLead > 0 {
				if ent, e := keystore.EntropyFromMnemonic(ws.Mnemonic); e == nil && len(ent) > 0 && ent[0] == 0 {
					w.Stat("probe.entropy_with_leading_zero_bytes")
					func(ws *WalletState) {
						// the restore chain such entropy has to survive: mnemonic ->
						// another instance -> reveal there -> export there -> a third
						if len(w.Violations) > 0 {
							return
						}
						var others []*Instance
						for _, o := range insts {
							if o != inst && o.Wallets[ws.ID] == nil && o.Started && o.WM != nil {
								others = append(others, o)
							}
						}
						if len(others) == 0 {
							return
						}
						o1 := others[0]
						nw, err := o1.ImportMnemonicIdx(ws, uint32(len(ws.Issued)), 0, true)
						if err != nil {
							w.Violate(prop+".import-failed", "ImportWalletWithMnemonic (entropy with %d leading zero bytes): %v", zeroLead, err)
							return
						}
						if nw.ID != ws.ID {
							w.Violate("C04.id-mismatch", "mnemonic restored on %s has id %s, original %s", o1.Name, nw.ID, ws.ID)
							return
						}
						nw.Issued = append([]IssuedAddr(nil), ws.Issued...)
						w.S.Quiesce(20000)
						o1.SyncIssued(nw)
						var mn string
						var gerr error
						o1.RunCall("GetMnemonic", true, func() { mn, _, gerr = o1.WM.GetMnemonic(nw.ID, nw.Pass) })
						if gerr != nil || mn != ws.Mnemonic {
							w.Violate(prop+".mnemonic-mismatch", "GetMnemonic on the restored wallet (entropy with %d leading zero bytes) returned err=%v, matches=%v", zeroLead, gerr, mn == ws.Mnemonic)
							return
						}
						js, xerr := o1.ExportWallet(nw.ID, nw.Pass, true)
						if xerr != nil {
							w.Violate(prop+".export-failed", "ExportWallet of the restored wallet: %v", xerr)
							return
						}
						if len(others) > 1 {
							o2 := others[1]
							n2, ierr := o2.ImportKeystore(nw, js, true)
							if ierr != nil {
								w.Violate(prop+".import-failed", "ImportWallet of the keystore exported by the restored wallet (entropy with %d leading zero bytes): %v", zeroLead, ierr)
								return
							}
							if n2.ID != ws.ID {
								w.Violate("C04.id-mismatch", "keystore exported by the restored wallet imports as %s, original %s", n2.ID, ws.ID)
								return
							}
							n2.Issued = append([]IssuedAddr(nil), nw.Issued...)
							w.S.Quiesce(20000)
							o2.SyncIssued(n2)
						}
						w.Stat("check.leading_zero_entropy_restore_chain")
					}(ws)
				}
			}
			if ws.HD.ID != ws.ID {
				w.Violate("C04.id-mismatch", "wallet id %s, independent derivation %s", ws.ID, ws.HD.ID)
				break
			}
			nkw := &keyWallet{ws: ws}
			nkw.secrets, nkw.names = secretsOf(ws)
			kws = append(kws, nkw)
			w.Stats[fmt.Sprintf("op.create_%dbits", bits)]++
		case 1: // new address (after a sign the account key is unlocked: private derivation)
			ws := find(inst, kw)
			if ws == nil {
				break
			}
			w.IssueAddress(inst, ws, t.Bool(30), true, prop)
			kw.secrets, kw.names = secretsOf(longest(kw, insts))
		case 2: // verify keys
			if ws := find(inst, kw); ws != nil {
				verifyKeys(inst, ws)
			}
		case 3: // export + import keystore into another instance
			ws := find(inst, kw)
			if ws == nil {
				break
			}
			js, err := inst.ExportWallet(ws.ID, ws.Pass, true)
			if err != nil {
				w.Violate(prop+".export-failed", "ExportWallet with the right passphrase: %v", err)
				break
			}
			if !checkOutput("the exported keystore", js, kw, "") {
				break
			}
			other := insts[t.Int(len(insts))]
			if prev := other.Wallets[ws.ID]; prev != nil && prop == "C05" && !prev.Removing && t.Bool(50) {
				// importing a keystore that is already there (also into the
				// exporting instance itself): the refusal must not carry secrets
				_, err := other.ImportKeystore(ws, js, true)
				other.Wallets[ws.ID] = prev
				if err != nil {
					for _, k2 := range kws {
						if !checkOutput("the error of a refused re-import of a keystore ("+err.Error()+")", err.Error(), k2, "") {
							break
						}
					}
					w.Stat("check.duplicate_import_refused")
				}
				break
			}
			if other == inst || other.Wallets[ws.ID] != nil {
				break
			}
			nw, err := other.ImportKeystore(ws, js, true)
			if err != nil {
				w.Violate(prop+".import-failed", "ImportWallet of an exported keystore: %v", err)
				break
			}
			if nw.ID != ws.ID {
				w.Violate("C04.id-mismatch", "keystore imported on %s has id %s, original %s", other.Name, nw.ID, ws.ID)
				break
			}
			nw.Issued = append([]IssuedAddr(nil), ws.Issued...)
			w.S.Quiesce(20000)
			other.SyncIssued(nw)
			verifyKeys(other, nw)
		case 4: // import mnemonic into another instance
			other := insts[t.Int(len(insts))]
			if prev := other.Wallets[kw.ws.ID]; prev != nil {
				// already there: in half of the cases the import is attempted all
				// the same; whatever the refusal says, it must not carry secrets
				// (of this wallet or of any other)
				if prop != "C05" || prev.Removing || !t.Bool(50) {
					break
				}
				src := longest(kw, insts)
				_, err := other.ImportMnemonicIdx(src, uint32(len(src.Issued)), uint32(t.Int(3)), true)
				other.Wallets[kw.ws.ID] = prev
				if err != nil {
					for _, k2 := range kws {
						if !checkOutput("the error of a refused re-import by mnemonic ("+err.Error()+")", err.Error(), k2, "") {
							break
						}
					}
					w.Stat("check.duplicate_import_refused")
				}
				break
			}
			src := longest(kw, insts)
			if t.Bool(20) && len(kws) < 5 {
				// the mnemonic path takes any private passphrase of legal length,
				// also one the create path would refuse (blanks, punctuation,
				// non-ASCII): that is another wallet (the passphrase enters the
				// seed), and its own passphrase must open it like any other
				alt := []string{"abc def!9", "p\u00e4ssw\u00f6rd1", "tab\there12", "semi;colon,1", "quote'\"x12", "dash-dot.9"}[t.Int(6)]
				hd, herr := NewHDWallet(src.Mnemonic, alt, w.Params.HDCoinType, "")
				if herr != nil {
					break
				}
				altSrc := &WalletState{ID: hd.ID, Mnemonic: src.Mnemonic, Pass: alt, HD: hd}
				if other.Wallets[hd.ID] != nil {
					break
				}
				nw, err := other.ImportMnemonicIdx(altSrc, 1, 0, true)
				if err != nil {
					w.Stat("probe.unusual_passphrase_import_refused")
					break
				}
				if nw.ID != hd.ID {
					if hd2, e2 := NewHDWallet(src.Mnemonic, alt, w.Params.HDCoinType, nw.ID); e2 == nil && hd2.ID == nw.ID {
						nw.HD = hd2
					} else {
						w.Violate("C04.id-mismatch", "mnemonic restored under passphrase %q has id %s, independent derivation %s", alt, nw.ID, hd.ID)
						break
					}
				}
				w.S.Quiesce(20000)
				other.SyncIssued(nw)
				nkw := &keyWallet{ws: nw}
				nkw.secrets, nkw.names = secretsOf(nw)
				kws = append(kws, nkw)
				w.Stat("probe.restore_under_unusual_passphrase")
				verifyKeys(other, nw)
				break
			}
			hint := uint32(len(src.Issued))
			intHint := uint32(0)
			if t.Bool(45) {
				intHint = uint32(1 + t.Int(4))
			}
			nw, err := other.ImportMnemonicIdx(src, hint, intHint, true)
			if err != nil {
				w.Violate(prop+".import-failed", "ImportWalletWithMnemonic: %v", err)
				break
			}
			if nw.ID != kw.ws.ID {
				w.Violate("C04.id-mismatch", "mnemonic imported on %s has id %s, original %s", other.Name, nw.ID, kw.ws.ID)
				break
			}
			nw.Issued = append([]IssuedAddr(nil), src.Issued...)
			w.S.Quiesce(20000)
			other.SyncIssued(nw)
			verifyKeys(other, nw)
		case 5: // reveal mnemonic
			ws := find(inst, kw)
			if ws == nil {
				break
			}
			var mn string
			var err error
			if t.Bool(50) {
				wp := wrongs(ws)
				c0, w0 := inst.DB.Commits, inst.Disk.Writes
				inst.RunCall("GetMnemonic", true, func() { mn, _, err = inst.WM.GetMnemonic(ws.ID, wp) })
				if refused(inst, "GetMnemonic", err, c0, w0, kw) && mn != "" {
					w.Violate(prop+".secret-returned", "GetMnemonic with a wrong passphrase returned data")
				}
				break
			}
			inst.RunCall("GetMnemonic", true, func() { mn, _, err = inst.WM.GetMnemonic(ws.ID, ws.Pass) })
			if err != nil || mn != ws.Mnemonic {
				w.Violate(prop+".mnemonic-mismatch", "GetMnemonic with the right passphrase returned err=%v, matches=%v", err, mn == ws.Mnemonic)
			}
		case 6: // wrong-passphrase export / remove / sign
			ws := find(inst, kw)
			if ws == nil {
				break
			}
			wp := wrongs(ws)
			c0, w0 := inst.DB.Commits, inst.Disk.Writes
			switch t.Int(3) {
			case 0:
				js, err := inst.ExportWallet(ws.ID, wp, true)
				if refused(inst, "ExportWallet", err, c0, w0, kw) && js != "" {
					w.Violate(prop+".secret-returned", "ExportWallet with a wrong passphrase returned data")
				}
			case 1:
				err := inst.RemoveWallet(ws.ID, wp, true)
				if err == nil {
					ws.Removing = false
				}
				if refused(inst, "RemoveWallet", err, c0, w0, kw) {
					if ls, e := inst.ListWallets(); e == nil {
						for _, l := range ls {
							if l.ID == ws.ID && l.Removing {
								w.Violate(prop+".refused-attempt-had-effect", "RemoveWallet with a wrong passphrase marked the wallet for removal")
							}
						}
					}
				}
			case 2:
				if len(ws.Issued) == 0 {
					break
				}
				if _, err := inst.Use(ws.ID, true); err != nil {
					break
				}
				// sometimes right after a successful unlock
				a := ws.HD.Addr(ws.Issued[t.Int(len(ws.Issued))].Index)
				pub, perr := btcec.ParsePubKey(a.PubKey, btcec.S256())
				if perr != nil {
					break
				}
				digest := sha256.Sum256([]byte("x"))
				if t.Bool(50) {
					inst.RunCall("SignHash", true, func() { inst.WM.SignHash(pub, digest[:], []byte(ws.Pass)) })
					w.Stat("probe.wrong_pass_after_unlock")
				}
				c0, w0 = inst.DB.Commits, inst.Disk.Writes
				var sig *btcec.Signature
				var err error
				inst.RunCall("SignHash", true, func() { sig, err = inst.WM.SignHash(pub, digest[:], []byte(wp)) })
				if refused(inst, "SignHash", err, c0, w0, kw) && sig != nil {
					w.Violate(prop+".secret-returned", "SignHash with a wrong passphrase returned a signature")
				}
			}
		case 7: // restart
			if err := inst.Restart(); err != nil {
				w.Violate(prop+".restart-failed", "%v", err)
			}
			w.Stat("op.restart")
		case 8: // crash at a quiescent point, restart
			w.S.Quiesce(20000)
			inst.Crash()
			if err := inst.Open(); err != nil {
				w.Violate(prop+".restart-failed", "reopen after crash: %v", err)
				break
			}
			if err := inst.StartSolo(); err != nil {
				w.Violate(prop+".restart-failed", "start after crash: %v", err)
			}
		case 9: // mine a block (addresses get history; imports have something to find)
			w.MineOnTip(t, 50)
			w.S.Quiesce(20000)
		case 10: // change the public passphrase
			if !inst.Started || inst.WM == nil {
				break
			}
			// (lengths vary: shorter, equal and longer than the one it replaces)
			newPub := fmt.Sprintf("Pub%dpass@", w.Stats["op.change_pubpass"]+1) + strings.Repeat("x", t.Int(7))
			var err error
			inst.RunCall("ChangePubPassphrase", true, func() {
				err = mwdb.Update(inst.DB, func(tx mwdb.DBTransaction) error {
					return inst.WM.SimKeystoreManager().ChangePubPassphrase(tx, []byte(inst.PubPass), []byte(newPub), &keystore.DefaultScryptOptions)
				})
			})
			if err != nil {
				w.Violate(prop+".pubpass-change-failed", "ChangePubPassphrase: %v", err)
				break
			}
			inst.PubPass = newPub
			w.Stat("op.change_pubpass")
			// in half of the cases the process goes on with the new passphrase in
			// memory only (wallets created or imported from now on are sealed
			// with whatever it kept) and is restarted by a later operation
			if t.Bool(50) {
				if err := inst.Restart(); err != nil {
					w.Violate(prop+".restart-failed", "restart with the new public passphrase: %v", err)
				}
			} else {
				w.Stat("probe.pubpass_changed_without_restart")
			}
		}
		if len(w.S.Panics) > 0 {
			w.Violate(prop+".panic", "%s", firstLines(w.S.Panics[0], 30))
		}
		if len(w.Violations) == 0 {
			checkSecrets(fmt.Sprintf("operation %d (kind %d)", i, op))
		}
	}
	// final: every instance that holds a wallet agrees with the derivation
	for _, inst := range insts {
		if len(w.Violations) > 0 {
			break
		}
		w.S.Quiesce(20000)
		for _, id := range inst.SortedWalletIDs() {
			ws := inst.Wallets[id]
			if ws.Removing || ws.Uncertain {
				continue
			}
			if !verifyKeys(inst, ws) {
				break
			}
		}
	}
	// cross-instance: same mnemonic => same id and same address at every index
	// (each instance was compared with the one derivation above)
	checkSecrets("the end of the history")
	w.Sample = fmt.Sprintf("%s instances=%d wallets=%d ops=%d restarts=%d keychecks=%d refused=%d", prop, nInst, len(kws), nOps, w.Stats["op.restart"], w.Stats["check.key_matches_address"], w.Stats["check.wrong_pass_refused"])
	_ = massutil.AddressClassWitnessV0
	_ = errors.New
}

// longest returns the instance copy of a wallet with the most issued addresses.
//
//go:norace
func longest(kw *keyWallet, insts []*Instance) *WalletState {
	best := kw.ws
	for _, inst := range insts {
		if ws := inst.Wallets[kw.ws.ID]; ws != nil && len(ws.Issued) > len(best.Issued) {
			best = ws
		}
	}
	return best
}
