package sim

import (
	"sort"

	"massnet.org/mass-wallet/masswallet"
	"massnet.org/mass-wallet/masswallet/keystore"
)

// WalletListing is one row of Wallets().
type WalletListing struct {
	ID       string
	Ready    bool
	Removing bool
	Synced   uint64
}

// ListWallets calls Wallets() (solo) and canonicalises the result.
//
//go:norace
func (inst *Instance) ListWallets() ([]WalletListing, error) {
	var sums []*masswallet.WalletSummary
	var err error
	if !inst.RunCall("Wallets", true, func() { sums, err = inst.WM.Wallets() }) {
		return nil, inst.unfinished("Wallets")
	}
	if err != nil {
		return nil, err
	}
	var out []WalletListing
	for _, s := range sums {
		out = append(out, WalletListing{ID: s.WalletID, Ready: s.Status.Ready(), Removing: s.Status.IsRemoved(), Synced: s.Status.SyncedHeight})
	}
	sort.Slice(out, func(i, j int) bool { return out[i].ID < out[j].ID })
	return out, nil
}

// RemoveWallet requests removal of wallet id.
//
//go:norace
func (inst *Instance) RemoveWallet(id, pass string, solo bool) error {
	var err error
	if !inst.RunCall("RemoveWallet", solo, func() { err = inst.WM.RemoveWallet(id, pass) }) {
		inst.W.Logf("remove-wallet %s: call in flight", short(id))
		return inst.unfinished("RemoveWallet")
	}
	inst.W.Logf("remove-wallet %s: err=%v", short(id), err)
	if err == nil {
		if ws := inst.Wallets[id]; ws != nil {
			ws.Removing = true
		}
		inst.W.Stat("op.remove_wallet")
	}
	return err
}

// ImportMnemonic restores a wallet from its mnemonic with the given index
// hint. src is the harness's knowledge of the wallet (from wherever it was
// created). The new WalletState starts with no issued addresses known; the
// caller learns them from GetAddresses.
//
//go:norace
func (inst *Instance) ImportMnemonic(src *WalletState, extHint uint32, solo bool) (*WalletState, error) {
	return inst.ImportMnemonicIdx(src, extHint, 0, solo)
}

// ImportMnemonicIdx is ImportMnemonic with an internal-branch index hint too.
//
//go:norace
func (inst *Instance) ImportMnemonicIdx(src *WalletState, extHint, intHint uint32, solo bool) (*WalletState, error) {
	var sum *masswallet.WalletSummary
	var err error
	params := &keystore.WalletParams{Mnemonic: src.Mnemonic, PrivatePassphrase: []byte(src.Pass), Remarks: "imp",
		ExternalIndex: extHint, InternalIndex: intHint, AddressGapLimit: inst.Cfg.Wallet.Settings.AddressGapLimit}
	if !inst.RunCall("ImportMnemonic", solo, func() { sum, err = inst.WM.ImportWalletWithMnemonic(params) }) {
		inst.W.Logf("import-mnemonic (of %s): call in flight", short(src.ID))
		return nil, inst.unfinished("ImportWalletWithMnemonic")
	}
	inst.W.Logf("import-mnemonic (of %s): err=%v", short(src.ID), err)
	if err != nil {
		return nil, err
	}
	ws := &WalletState{ID: sum.WalletID, Mnemonic: src.Mnemonic, Pass: src.Pass, HD: src.HD, Imported: true, InternalN: intHint}
	inst.Wallets[ws.ID] = ws
	inst.W.Stat("op.import_mnemonic")
	return ws, nil
}

// ExportWallet returns the keystore JSON.
//
//go:norace
func (inst *Instance) ExportWallet(id, pass string, solo bool) (string, error) {
	var js string
	var err error
	if !inst.RunCall("ExportWallet", solo, func() { js, err = inst.WM.ExportWallet(id, pass) }) {
		return "", inst.unfinished("ExportWallet")
	}
	return js, err
}

// ImportKeystore imports an exported keystore.
//
//go:norace
func (inst *Instance) ImportKeystore(src *WalletState, js string, solo bool) (*WalletState, error) {
	var sum *masswallet.WalletSummary
	var err error
	if !inst.RunCall("ImportWallet", solo, func() { sum, err = inst.WM.ImportWallet(js, src.Pass) }) {
		return nil, inst.unfinished("ImportWallet")
	}
	if err != nil {
		return nil, err
	}
	ws := &WalletState{ID: sum.WalletID, Mnemonic: src.Mnemonic, Pass: src.Pass, HD: src.HD, Imported: true, InternalN: src.InternalN}
	inst.Wallets[ws.ID] = ws
	inst.W.Stat("op.import_keystore")
	return ws, nil
}

// StopAsync launches Stop on a stopper goroutine and returns it.
//
//go:norace
func (inst *Instance) StopAsync() *G {
	inst.StopRequested = true
	return inst.Call(RoleStopper, "Stop", func() {
		inst.startSeen.Lock()
		inst.startSeen.Unlock()
		inst.WM.Stop()
	})
}

// SyncIssued extends the harness's list of issued addresses of an imported
// wallet to the number of external keys the wallet reports (an import derives
// at least one address and everything its scan discovered).
//
//go:norace
func (inst *Instance) SyncIssued(ws *WalletState) {
	wi, err := inst.Use(ws.ID, true)
	if err != nil {
		return
	}
	n := int(wi.ExternalKeyCount)
	for len(ws.Issued) < n {
		idx := uint32(len(ws.Issued))
		var h [32]byte
		copy(h[:], ws.HD.Addr(idx).ScriptHash)
		ws.Issued = append(ws.Issued, IssuedAddr{Index: idx, Addr: inst.W.Gen.addrString(h), FromImport: true})
	}
}
