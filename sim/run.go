package sim

import (
	"encoding/json"
	"fmt"
	"os"
	"regexp"
	"runtime/debug"
	"sort"
	"strconv"
	"strings"
	"testing"
	"testing/synctest"
	"time"
)

// Result is the record one run produces.
type Result struct {
	Prop       string                 `json:"prop"`
	Seed       uint64                 `json:"seed"`
	Violations []Violation            `json:"violations,omitempty"`
	Harness    string                 `json:"harness_error,omitempty"`
	Stats      map[string]int         `json:"stats,omitempty"`
	Steps      int                    `json:"steps"`
	TraceHash  string                 `json:"trace_hash"`
	StateHash  string                 `json:"state_hash,omitempty"`
	SimTimeS   float64                `json:"sim_time_s"`
	WallMs     int64                  `json:"wall_ms"`
	Plan       []int                  `json:"plan,omitempty"`
	Sched      []int                  `json:"sched,omitempty"`
	PlanUsed   int                    `json:"plan_used"`
	SchedUsed  int                    `json:"sched_used"`
	Sample     string                 `json:"sample,omitempty"`
	Trace      []string               `json:"trace,omitempty"`
	Log        []string               `json:"log,omitempty"`
	Extra      map[string]interface{} `json:"extra,omitempty"`
}

// Replay is the replay file format.
type Replay struct {
	Property string         `json:"property"`
	Seed     uint64         `json:"seed"`
	Plan     []int          `json:"plan"`
	Sched    []int          `json:"sched"`
	Params   map[string]int `json:"params,omitempty"`
	Expect   string         `json:"expect"`
	Detail   string         `json:"detail,omitempty"`
	Trace    []string       `json:"trace,omitempty"`
	Note     string         `json:"note,omitempty"`
}

// Runner drives one property in one world.
type Runner func(w *World, params map[string]int)

var Runners = map[string]Runner{}

// RunOne executes one simulated run inside a synctest bubble. When plan/sched
// are nil, the tapes are generated from the seed; otherwise they are replayed
// (exhausted tapes yield zeros).
//
//go:norace
func RunOne(t *testing.T, prop string, seed uint64, plan, sched []int, replay bool, params map[string]int, trace bool) (res *Result) {
	mode := ModeGen
	if replay {
		mode = ModeReplay
	}
	return RunOneMode(t, prop, seed, plan, sched, mode, params, trace)
}

const (
	ModeGen    = iota // tapes generated from the seed
	ModeReplay        // tapes replayed; exhausted tapes read as zeros
	ModeExtend        // given tapes replayed, then extended from the seed's PRNG
)

// RunOneMode is RunOne with an explicit tape mode.
//
//go:norace
func RunOneMode(t *testing.T, prop string, seed uint64, plan, sched []int, mode int, params map[string]int, trace bool) (res *Result) {
	res = &Result{Prop: prop, Seed: seed}
	start := time.Now()
	worldMu.Lock()
	lastRun.prop, lastRun.seed, lastRun.params = prop, seed, params
	worldMu.Unlock()
	runner := Runners[prop]
	if runner == nil {
		res.Harness = "unknown property " + prop
		return res
	}
	func() {
		defer func() {
			if r := recover(); r != nil {
				s := fmt.Sprint(r)
				if !strings.Contains(s, "blocked goroutines remain") && !strings.Contains(s, "deadlock") {
					res.Harness = "panic outside bubble: " + s
				}
			}
		}()
		synctest.Test(t, func(t *testing.T) {
			var w *World
			defer func() {
				if r := recover(); r != nil {
					res.Harness = fmt.Sprintf("harness panic: %v\n%s", r, debug.Stack())
				}
				if w != nil {
					res.Violations = w.Violations
					res.Stats = w.Stats
					res.Steps = w.S.Steps
					res.TraceHash = fmt.Sprintf("%016x", w.S.TraceHash)
					res.SimTimeS = time.Since(w.clockStart).Seconds()
					res.PlanUsed = w.Plan.Used
					res.SchedUsed = w.S.Tape.Used
					res.Plan = w.Plan.Vals
					res.Sched = w.S.Tape.Vals
					res.Trace = w.S.Trace
					res.Log = w.Log
					res.Sample = w.Sample
					res.Extra = w.Extra
					for k, v := range w.S.GateHits {
						res.Stats["gate."+k] += v
					}
				}
			}()
			pt := &Tape{Vals: append([]int(nil), plan...)}
			st := &Tape{Vals: append([]int(nil), sched...)}
			switch mode {
			case ModeGen:
				pt.rng = NewRng(seed*2 + 1)
				st.rng = NewRng(seed*2 + 2)
			case ModeExtend:
				pt.rng = NewRng(seed*2 + 1001)
				st.rng = NewRng(seed*2 + 1002)
			}
			w = NewWorld(seed, pt, st)
			w.S.TraceOn = trace
			w.LogOn = trace
			runner(w, params)
			w.Shutdown()
		})
	}()
	res.WallMs = time.Since(start).Milliseconds()
	if raceBuild {
		seen := map[string]bool{}
		for _, r := range collectRaces() {
			if res.Stats == nil {
				res.Stats = map[string]int{}
			}
			if r.Harness {
				res.Stats["race.reports_in_simulator_bookkeeping_ignored"]++
				continue
			}
			key := r.Access1 + " vs " + r.Access2
			if p1, p2 := sitePkg(r.Access1), sitePkg(r.Access2); p1 == p2 && !strings.HasPrefix(p1, "masswallet") && !strings.HasPrefix(p1, "api") {
				key += " [both accesses in package " + p1 + "]"
			}
			if seen[key] {
				continue
			}
			seen[key] = true
			res.Stats["race.reports"]++
			res.Violations = append(res.Violations, Violation{Class: prop + ".data-race", Detail: "unsynchronised accesses: " + key + "\n" + firstLines(r.Text, 60)})
		}
	}
	return res
}

// lastRun identifies the run in progress (for the watchdog).
var lastRun struct {
	prop   string
	seed   uint64
	params map[string]int
}

// HangVerdict is called by the watchdog (a goroutine outside the bubble) when
// no scheduler step has happened for a long time, with a dump of all goroutine
// stacks. The scheduler is then stuck inside synctest.Wait because some
// goroutine of the bubble is blocked in a way the bubble does not count as
// durable - in practice a sync.Mutex / RWMutex wait. Two cases:
//
//   - the mutex is held by a goroutine the scheduler keeps parked at a gate: a
//     limit of the simulator (it cannot see the wait), never a verdict -> nil;
//   - nothing is enabled: no goroutine could be released by the scheduler, every
//     live goroutine of the wallet is blocked off-gate (channel, WaitGroup,
//     mutex) and none of them sleeps on a timer. Nobody will ever release the
//     mutex: the wallet's goroutines block each other permanently. That is a
//     state predicate like the channel deadlock of 3.1, and a verdict.
//
// The result carries the tapes consumed so far: replaying them runs into the
// same state (and the same 90 s of silence) again.
//
//go:norace
func HangVerdict(dump string) *Result {
	worldMu.Lock()
	w := currentWorld
	prop, seed, params := lastRun.prop, lastRun.seed, lastRun.params
	worldMu.Unlock()
	if w == nil || w.S == nil || prop == "" {
		return nil
	}
	offGate := w.S.blockedOffGate()
	nothingEnabled := len(w.S.Enabled()) == 0
	// addresses of the short-section mutexes of every live instance
	short := map[string]bool{}
	for _, inst := range w.Insts {
		for _, a := range inst.shortMutexAddrs() {
			short[fmt.Sprintf("%#x", a)] = true
		}
	}
	lockSlow := regexp.MustCompile(`\(\*Mutex\)\.lockSlow\((0x[0-9a-f]+)\)`)
	var involved []string
	mutexWait, waitsShort := false, false
	for _, g := range strings.Split(dump, "\n\n") {
		if !strings.Contains(g, "massnet.org/mass-wallet/") || strings.Contains(g, "verifsim.(*Sched).Gate") {
			continue
		}
		head := firstLines(g, 1)
		if strings.Contains(head, "[running") || strings.Contains(head, "[runnable") {
			return nil // something of the wallet still runs: not stuck
		}
		if strings.Contains(g, "time.Sleep") || strings.Contains(g, "time.(*Timer)") {
			return nil
		}
		if strings.Contains(g, "sync.(*Mutex).Lock") || strings.Contains(g, "sync.(*RWMutex).Lock") || strings.Contains(g, "sync.(*RWMutex).RLock") {
			mutexWait = true
			if m := lockSlow.FindStringSubmatch(g); m != nil && short[m[1]] {
				waitsShort = true
			}
		}
		involved = append(involved, firstLines(g, 14))
	}
	// Either nothing could be released by the scheduler at all, or the awaited
	// lock is one that no goroutine parked at a gate can hold (short-section
	// mutexes are never held across a gate, and Sched.Gate does not park a
	// goroutine that holds one at a hand-shake gate): its holder is among the
	// blocked ones.
	// Third case: a goroutine waits for ldb's writer mutex inside BeginTx although
	// the simulated writer lock - released by every Commit and Rollback of the
	// holder - says it is this goroutine's turn: the real lock was not released
	// by whoever held it before (leaked on some path), and nobody ever will.
	leaked := false
	gidRe := regexp.MustCompile(`^goroutine (\d+) \[`)
	for _, g := range strings.Split(dump, "\n\n") {
		if !strings.Contains(g, "ldb.(*LevelDB).BeginTx") || !strings.Contains(g, "sync.(*Mutex).Lock") {
			continue
		}
		m := gidRe.FindStringSubmatch(g)
		if m == nil {
			continue
		}
		id, _ := strconv.ParseInt(m[1], 10, 64)
		w.S.mu.Lock()
		mg := w.S.gs[id]
		if (mg != nil && w.S.lockHolder == mg) || (mg == nil && w.S.rootHolds) {
			leaked = true
		}
		w.S.mu.Unlock()
		if leaked {
			mutexWait = true
			involved = append(involved, "[writer lock of the store never released by its previous holder]\n"+firstLines(g, 14))
			break
		}
	}
	if !leaked && !offGate {
		return nil
	}
	if !mutexWait || !(nothingEnabled || waitsShort || leaked) {
		return nil
	}
	res := &Result{Prop: prop, Seed: seed, Stats: w.Stats, Steps: w.S.Steps, TraceHash: fmt.Sprintf("%016x", w.S.TraceHash),
		Plan: w.Plan.Vals, Sched: w.S.Tape.Vals, PlanUsed: w.Plan.Used, SchedUsed: w.S.Tape.Used, Trace: w.S.Trace, Log: w.Log,
		Extra: map[string]interface{}{"params": params, "hang_verdict": true}}
	res.Violations = []Violation{{Class: prop + ".mutex-deadlock", Detail: "the wallet's goroutines block each other permanently: every live goroutine that is not parked at a gate is blocked and at least one of them waits for a mutex that none of the goroutines the scheduler could release holds (" + fmt.Sprintf("nothing enabled=%v, short-section mutex=%v", nothingEnabled, waitsShort) + "); parked/blocked: " + fmt.Sprint(w.S.ParkedSummary()) + "\n" + strings.Join(involved, "\n\n")}}
	return res
}

// Shutdown stops every live instance so its goroutines and database go away.
//
//go:norace
func (w *World) Shutdown() {
	for _, inst := range w.Insts {
		if inst.WM == nil || inst.Dead || inst.Stopped || !inst.Started || inst.StopRequested {
			if inst.DB != nil && !inst.Dead && !inst.Stopped && !inst.Started {
				inst.DB.Close()
			}
			continue
		}
		inst.StopSolo()
	}
}

// StopSolo runs WalletManager.Stop to completion with fair scheduling of the
// followers. It reports whether Stop returned.
//
//go:norace
func (inst *Instance) StopSolo() bool {
	inst.StopRequested = true
	g := inst.Call(RoleStopper, "Stop", func() { inst.WM.Stop() })
	ok := inst.W.S.RunSolo(g, stepBudget)
	if ok {
		inst.Stopped = true
	}
	return ok
}

// WriteReplay stores a replay file and returns its path.
//
//go:norace
func WriteReplay(dir string, r *Replay) (string, error) {
	if err := os.MkdirAll(dir, 0o755); err != nil {
		return "", err
	}
	name := fmt.Sprintf("%s/%s-seed%d-%s.json", dir, r.Property, r.Seed, sanitize(r.Expect))
	b, _ := json.MarshalIndent(r, "", " ")
	return name, os.WriteFile(name, b, 0o644)
}

//go:norace
func sanitize(s string) string {
	var sb strings.Builder
	for _, c := range s {
		if (c >= 'a' && c <= 'z') || (c >= 'A' && c <= 'Z') || (c >= '0' && c <= '9') || c == '-' || c == '.' {
			sb.WriteRune(c)
		} else {
			sb.WriteRune('_')
		}
	}
	return sb.String()
}

// Classes returns the sorted distinct violation classes of a result.
//
//go:norace
func (r *Result) Classes() []string {
	m := map[string]bool{}
	for _, v := range r.Violations {
		m[v.Class] = true
	}
	var out []string
	for k := range m {
		out = append(out, k)
	}
	sort.Strings(out)
	return out
}
