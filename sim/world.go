package sim

import (
	crand "crypto/rand"
	"fmt"
	"os"
	"path/filepath"
	"reflect"
	"regexp"
	"runtime"
	"runtime/debug"
	"sort"
	"strings"
	"sync"
	"time"
	"unsafe"

	"github.com/massnetorg/mass-core/blockchain"
	"github.com/massnetorg/mass-core/consensus"
	"github.com/massnetorg/mass-core/database"
	"github.com/massnetorg/mass-core/logging"
	"github.com/massnetorg/mass-core/massutil"
	"github.com/massnetorg/mass-core/netsync"
	"github.com/massnetorg/mass-core/wire"
	"github.com/sirupsen/logrus"

	"massnet.org/mass-wallet/config"
	"massnet.org/mass-wallet/masswallet"
	"massnet.org/mass-wallet/masswallet/db/ldb"
	"massnet.org/mass-wallet/masswallet/keystore"
	"massnet.org/mass-wallet/masswallet/txmgr"
)

const PubPass = "DJr6BomK"

// Knobs are the per-run configuration values (swarm style).
type Knobs struct {
	CoinbaseMaturity uint64
	MinFrozen        uint64
	WarmUpHeight     uint64
	BindingLock      uint64
	MinStakingValue  uint64
	GapLimit         uint32
	WriteBuffer      int
	NodeGates        bool
	// ImportBatch / RemoveRound: sizes of a rescan batch (blocks) and of a
	// removal round (credits); 0 = the built-in 1000 / 20000
	ImportBatch uint64
	RemoveRound int
}

//go:norace
func (k Knobs) Apply() {
	consensus.CoinbaseMaturity = k.CoinbaseMaturity
	consensus.MinFrozenPeriod = k.MinFrozen
	consensus.MASSIP0002WarmUpHeight = k.WarmUpHeight
	consensus.MASSIP0002BindingLockedPeriod = k.BindingLock
	masswallet.SimSetImportBatch(k.ImportBatch)
	txmgr.SimSetRemoveRound(k.RemoveRound)
	consensus.MinStakingValue = k.MinStakingValue
}

var defaultConsensus = Knobs{
	CoinbaseMaturity: consensus.CoinbaseMaturity, MinFrozen: consensus.MinFrozenPeriod,
	WarmUpHeight: consensus.MASSIP0002WarmUpHeight, BindingLock: consensus.MASSIP0002BindingLockedPeriod,
	MinStakingValue: consensus.MinStakingValue,
}

// Violation is one property violation found in a run.
type Violation struct {
	Class  string // stable violation class (used by minimisation and known findings)
	Detail string
}

type delivery struct {
	block  *wire.MsgBlock
	tx     *wire.MsgTx
	inChan bool // currently also sitting in the wallet's own channel
}

// fakeServer implements masswallet.Server over the simulated node.
type fakeServer struct {
	bc   *blockchain.Blockchain
	node *SimNode
	pool *blockchain.TxPool
	sm   *netsync.SyncManager
	best *blockchain.BlockNode
}

//go:norace
func setPrivate(f reflect.Value, v reflect.Value) {
	reflect.NewAt(f.Type(), unsafe.Pointer(f.UnsafeAddr())).Elem().Set(v)
}

//go:norace
func getPrivate(f reflect.Value) reflect.Value {
	return reflect.NewAt(f.Type(), unsafe.Pointer(f.UnsafeAddr())).Elem()
}

//go:norace
func newFakeServer(node *SimNode) *fakeServer {
	s := &fakeServer{node: node, bc: &blockchain.Blockchain{}, sm: &netsync.SyncManager{}}
	v := reflect.ValueOf(s.bc).Elem()
	tree := blockchain.NewBlockTree()
	setPrivate(v.FieldByName("blockTree"), reflect.ValueOf(tree))
	lf := v.FieldByName("listeners")
	setPrivate(lf, reflect.MakeMap(lf.Type()))
	s.best = &blockchain.BlockNode{}
	tv := reflect.ValueOf(tree).Elem()
	setPrivate(tv.FieldByName("bestNode"), reflect.ValueOf(s.best))
	sv := reflect.ValueOf(s.sm).Elem()
	pf := sv.FieldByName("peers")
	setPrivate(pf, reflect.New(pf.Type().Elem()))
	s.pool = blockchain.NewTxPool(nil, nil, nil)
	// the chain object's own database handle: the API's block and
	// transaction look-ups go through it
	setPrivate(v.FieldByName("db"), reflect.ValueOf(node))
	s.setTip(node.Tip())
	return s
}

//go:norace
func (s *fakeServer) setTip(b *BlockRec) {
	h := b.Hash
	s.best.Height = b.Height
	s.best.Hash = &h
}

//go:norace
func (s *fakeServer) listeners() []blockchain.Listener {
	v := reflect.ValueOf(s.bc).Elem()
	m := getPrivate(v.FieldByName("listeners"))
	var out []blockchain.Listener
	for _, k := range m.MapKeys() {
		out = append(out, k.Interface().(blockchain.Listener))
	}
	return out
}

//go:norace
func (s *fakeServer) Blockchain() *blockchain.Blockchain { return s.bc }

//go:norace
func (s *fakeServer) ChainDB() database.Db { return s.node }

//go:norace
func (s *fakeServer) TxMemPool() *blockchain.TxPool { return s.pool }

//go:norace
func (s *fakeServer) SyncManager() *netsync.SyncManager { return s.sm }

// WalletState is the harness's knowledge of one wallet inside one instance.
type WalletState struct {
	ID       string
	Mnemonic string
	Pass     string
	HD       *HDWallet
	// issued addresses in order of issue: index -> class (0 std, 1 staking)
	Issued   []IssuedAddr
	Removing bool // removal requested and accepted
	Imported bool // restored from mnemonic / keystore (addresses learnt from the API)
	// Uncertain: an operation on this wallet was in flight when the process
	// crashed, so the harness does not know whether it took effect.
	Uncertain bool
	// InternalN: lower bound on the number of internal-branch (change)
	// addresses the wallet holds (a restore with an internal index hint, or a
	// keystore exported from such a wallet, derives that many)
	InternalN uint32
}

type IssuedAddr struct {
	Index   uint32
	Staking bool
	Addr    string // what the API returned
	// FromImport: known only because the restored wallet reports that many
	// keys (its issue class is unknown)
	FromImport bool
}

// Instance is one wallet process.
type Instance struct {
	// startSeen orders Start's return before a later Stop (see StartAsync, StopAsync)
	startSeen sync.Mutex
	Name      string
	W         *World
	Disk      *SimDisk
	DB        *SimDB
	WM        *masswallet.WalletManager
	srv       *fakeServer
	Cfg       *config.Config

	Pending       []delivery
	QuitClosed    bool
	StartFailed   bool // Start returned an error (the node process exits)
	Dead          bool
	Started       bool
	Stopped       bool
	StopRequested bool
	handlerG      *G
	workerG       *G

	Wallets map[string]*WalletState
	Current string
	Opens   int
	PubPass string
}

// World is one simulated run.
type World struct {
	Seed   uint64
	Plan   *Tape
	S      *Sched
	Node   *SimNode
	Params *config.Params
	Knobs  Knobs
	Insts  []*Instance

	NodeGates bool
	// PostCommitGates: followers park once more right after every successful
	// commit (the store is ahead of their in-memory copies there); set by the
	// C17 runner for all its modes
	PostCommitGates bool
	// WalletsComeAndGo: the history removes and re-imports wallets (C06, C18)
	WalletsComeAndGo bool
	// FatalIsCrash: a logging FATAL (os.Exit in production) is modelled as the
	// death of the whole process at that instant instead of being recorded only
	FatalIsCrash bool
	Crypto       *Rng
	Gen          *Gen

	Violations []Violation
	Removed    []*WalletState // wallets whose removal completed (candidates for re-import)
	Stats      map[string]int
	Log        []string
	LogOn      bool

	clockStart time.Time
	logStart   int64
	Sample     string
	Extra      map[string]interface{}
}

var (
	globalOnce   sync.Once
	currentWorld *World
	worldMu      hmu
)

var logDir string

// logSize returns the total size of the wallet's log files.
//
//go:norace
func logSize() int64 {
	var n int64
	m, _ := filepath.Glob(filepath.Join(logDir, "sim.log-*"))
	for _, f := range m {
		if st, err := os.Stat(f); err == nil {
			n += st.Size()
		}
	}
	return n
}

var reLogMsg = regexp.MustCompile(`msg="((?:[^"\\]|\\.)*)"`)

// RecentErrors returns the distinct error-level messages the wallet logged
// during this run (most recent last, at most n). They are appended to
// violation details so that findings can be told apart by cause.
//
//go:norace
func (w *World) RecentErrors(n int) []string {
	m, _ := filepath.Glob(filepath.Join(logDir, "sim.log-*"))
	sort.Strings(m)
	var data []byte
	for _, f := range m {
		b, err := os.ReadFile(f)
		if err == nil {
			data = append(data, b...)
		}
	}
	if int64(len(data)) < w.logStart {
		return nil
	}
	data = data[w.logStart:]
	seen := map[string]bool{}
	var out []string
	for _, line := range strings.Split(string(data), "\n") {
		if !strings.Contains(line, "level=error") {
			continue
		}
		msg := ""
		if mm := reLogMsg.FindStringSubmatch(line); mm != nil {
			msg = mm[1]
		}
		if i := strings.Index(line, " err="); i >= 0 {
			rest := line[i+5:]
			if strings.HasPrefix(rest, "\"") {
				if j := strings.Index(rest[1:], "\""); j >= 0 {
					rest = rest[1 : j+1]
				}
			} else if j := strings.IndexByte(rest, ' '); j >= 0 {
				rest = rest[:j]
			}
			msg += ": " + rest
		}
		if msg != "" && !seen[msg] {
			seen[msg] = true
			out = append(out, msg)
		}
	}
	if len(out) > n {
		out = out[len(out)-n:]
	}
	return out
}

// CleanupGlobal removes process-wide scratch files.
//
//go:norace
func CleanupGlobal() {
	if logDir != "" {
		os.RemoveAll(logDir)
	}
}

// initGlobal installs process-wide hooks once.
//
//go:norace
func initGlobal() {
	globalOnce.Do(func() {
		dir, err := os.MkdirTemp("", "verifsim-log")
		if err != nil {
			panic(err)
		}
		logDir = dir
		if os.Getenv("VERIF_LOG") != "" {
			logging.Init(dir, "sim.log", os.Getenv("VERIF_LOG"), 1, false)
		} else {
			logging.Init(dir, "sim.log", "error", 1, true)
		}
		logrus.SetLevel(logrus.FatalLevel)
		logrus.RegisterExitHandler(func() {
			worldMu.Lock()
			w := currentWorld
			worldMu.Unlock()
			if w != nil {
				w.S.mu.Lock()
				w.S.FatalExits = append(w.S.FatalExits, string(debug.Stack()))
				if w.FatalIsCrash {
					// logging FATAL ends the process: nothing of it runs on
					w.S.CrashRequested = true
					for _, inst := range w.Insts {
						inst.Dead = true
					}
				}
				w.S.mu.Unlock()
			}
			runtime.Goexit()
		})
		keystore.DefaultScryptOptions = keystore.ScryptOptions{N: 16, R: 8, P: 1}
	})
}

// NewWorld builds a world inside the current synctest bubble.
//
//go:norace
func NewWorld(seed uint64, plan, sched *Tape) *World {
	initGlobal()
	w := &World{Seed: seed, Plan: plan, Params: config.ChainParams, Stats: map[string]int{}, Extra: map[string]interface{}{}}
	w.S = NewSched(sched)
	w.Crypto = NewRng(seed ^ 0xC0FFEE)
	crand.Reader = w.Crypto
	w.SetKnobs(Knobs{CoinbaseMaturity: 2, MinFrozen: 2, WarmUpHeight: 1 << 40, BindingLock: 3, MinStakingValue: 1000, GapLimit: 20, WriteBuffer: 4 << 20})
	w.Node = NewSimNode(w.Params.GenesisBlock)
	w.Node.Work = w.S.Work
	w.Node.Gate = func(method string) {
		g := w.S.Current()
		if g != nil && g.nodeGates && g.Role != RoleClient {
			w.S.Gate("node." + method)
		}
	}
	w.Gen = NewGen(w)
	masswallet.SimYield = w.S.Gate
	ldb.SimBeforeWriterLock = writerLockGate
	masswallet.SimPreferQuit = w.S.PreferQuit
	worldMu.Lock()
	currentWorld = w
	worldMu.Unlock()
	w.clockStart = time.Now()
	w.logStart = logSize()
	return w
}

// SetKnobs installs the per-run knobs (before any instance is created).
//
//go:norace
func (w *World) SetKnobs(k Knobs) {
	w.Knobs = k
	w.NodeGates = k.NodeGates
	k.Apply()
}

//go:norace
func (w *World) Violate(class, format string, args ...interface{}) {
	w.Violations = append(w.Violations, Violation{Class: class, Detail: fmt.Sprintf(format, args...)})
}

//go:norace
func (w *World) Logf(format string, args ...interface{}) {
	if w.LogOn {
		w.Log = append(w.Log, fmt.Sprintf(format, args...))
		if echoLog {
			// interleaved with the wallet's own log (VERIF_LOG) when a run is looked at by hand
			fmt.Println("SIM| " + fmt.Sprintf(format, args...))
		}
	}
}

var echoLog = os.Getenv("VERIF_LOG") != ""

//go:norace
func (w *World) Stat(k string) { w.Stats[k]++ }

// NewInstance creates a wallet process on a fresh disk (not yet opened).
//
//go:norace
func (w *World) NewInstance(name string) *Instance {
	inst := &Instance{Name: name, W: w, Disk: NewSimDisk(), Wallets: map[string]*WalletState{}, PubPass: PubPass}
	cfg := &config.Config{Core: config.NewDefCoreConfig(), Wallet: config.NewDefWalletConfig()}
	cfg.Wallet.Settings.AddressGapLimit = w.Knobs.GapLimit
	inst.Cfg = cfg
	w.Insts = append(w.Insts, inst)
	return inst
}

// Open opens (or creates) the wallet database and builds the WalletManager.
// It runs in the calling goroutine (root): nothing else of this instance is
// alive at that moment.
//
//go:norace
func (inst *Instance) Open() error {
	w := inst.W
	w.S.FreeWriterLock()
	create := inst.Opens == 0
	inst.Opens++
	inner, err := ldb.OpenWithStorage(inst.Disk, create, w.Knobs.WriteBuffer, 0)
	if err != nil {
		return fmt.Errorf("open wallet db: %w", err)
	}
	inst.DB = NewSimDB(inner, w.S, inst)
	inst.DB.PostCommitGate = w.PostCommitGates
	inst.srv = newFakeServer(w.Node)
	inst.QuitClosed, inst.Dead, inst.Started, inst.Stopped, inst.StopRequested, inst.StartFailed = false, false, false, false, false, false
	inst.handlerG, inst.workerG = nil, nil
	inst.Pending = nil
	inst.Current = ""
	var wm *masswallet.WalletManager
	func() {
		// this runs on the root goroutine: a panic of the wallet's own opening
		// code is the wallet's, not the harness's
		defer func() {
			if r := recover(); r != nil {
				err = fmt.Errorf("panic while opening the wallet: %v\n%s", r, firstLines(string(debug.Stack()), 30))
			}
		}()
		wm, err = masswallet.NewWalletManager(inst.srv, inst.DB, inst.Cfg, w.Params, inst.PubPass)
	}()
	if err != nil {
		return fmt.Errorf("NewWalletManager: %w", err)
	}
	inst.WM = wm
	// go-cache stops its janitor from a finalizer, i.e. from outside the
	// bubble, which the runtime forbids for bubble channels: drop the finalizer
	// (the janitor goroutine simply stays parked in the finished bubble).
	uc := getPrivate(reflect.ValueOf(wm).Elem().FieldByName("usedCache"))
	if !uc.IsNil() {
		runtime.SetFinalizer(uc.Interface(), nil)
	}
	return nil
}

// Call runs fn on a managed client goroutine and returns it (parked at its
// start gate). Panics are recorded.
//
//go:norace
func (inst *Instance) Call(role Role, name string, fn func()) *G {
	w := inst.W
	return w.S.Go(role, inst, name, func() {
		if role != RoleStarter {
			// API calls are served, and Stop is called, by code that has seen
			// Start return (the node starts its API server after the wallet)
			inst.startSeen.Lock()
			inst.startSeen.Unlock()
		}
		defer func() {
			if r := recover(); r != nil {
				if wb, ok := r.(workBudgetExceeded); ok {
					w.S.mu.Lock()
					w.S.Stalls = append(w.S.Stalls, fmt.Sprintf("%s %s: more than %d storage/node queries\n%s", inst.Name, name, wb.n-1, debug.Stack()))
					w.S.mu.Unlock()
					return
				}
				w.S.mu.Lock()
				w.S.Panics = append(w.S.Panics, fmt.Sprintf("%s %s: %v\n%s", inst.Name, name, r, debug.Stack()))
				w.S.mu.Unlock()
			}
		}()
		fn()
	})
}

// StartAsync launches WalletManager.Start on a starter goroutine.
//
//go:norace
func (inst *Instance) StartAsync(errp *error) *G {
	s := inst.W.S
	g := inst.Call(RoleStarter, "Start", func() {
		s.mu.Lock()
		if s.starting != nil && s.starting != inst {
			s.mu.Unlock()
			panic("sim harness: two instances starting at once")
		}
		s.starting = inst
		s.mu.Unlock()
		err := inst.WM.Start()
		// whoever stops the wallet later has seen Start return (a real
		// synchronisation, visible to the race detector)
		inst.startSeen.Lock()
		inst.startSeen.Unlock()
		if errp != nil {
			*errp = err
		}
		if err == nil {
			inst.Started = true
		}
	})
	return g
}

// finishStart must be called by the root after the starter is done and the
// children have registered.
//
//go:norace
func (inst *Instance) finishStart() {
	s := inst.W.S
	s.mu.Lock()
	if s.starting == inst {
		s.starting = nil
	}
	s.mu.Unlock()
}

// StartSolo opens nothing; it runs Start to completion without interleaving.
//
//go:norace
func (inst *Instance) StartSolo() error {
	var err error
	g := inst.StartAsync(&err)
	if !inst.W.S.RunSolo(g, 1<<20) {
		return fmt.Errorf("Start did not finish: %v", inst.W.S.ParkedSummary())
	}
	inst.finishStart()
	return err
}

// StartMoving runs WalletManager.Start while the environment keeps changing:
// between the starter's gates (listener registered, every write transaction of
// the catch-up, chain queries when node gates are on) the node may connect
// blocks or reorganise, up to maxEnv times. Tips announced once the listener is
// registered are queued for the handler, as the node's chain goroutine queues
// them into the wallet's buffered channel - so a block can be both inside the
// catch-up range and in the queue. A Start that fails because the chain moved
// under it is a process exit (the node refuses to start): the process is
// started again with the chain at rest.
//
//go:norace
func (inst *Instance) StartMoving(t *Tape, maxEnv int) error {
	w := inst.W
	s := w.S
	var err error
	g := inst.StartAsync(&err)
	env := t.Int(maxEnv + 1)
	moved := 0
	for i := 0; i < 1<<20 && !g.done; i++ {
		if s.CrashRequested {
			break
		}
		if env > 0 && t.Bool(35) {
			env--
			moved++
			if t.Bool(70) {
				w.MineOnTip(t, 70)
			} else {
				w.Fork(t, 1+t.Int(3), 1+t.Int(2), 50, 2)
			}
			w.Stat("op.env_during_start")
			if len(inst.Pending) > 0 {
				w.Stat("probe.tip_queued_during_start")
			}
			continue
		}
		if !s.SoloStep(g) {
			break
		}
	}
	inst.finishStart()
	if s.CrashRequested || inst.Dead {
		return ErrCrashed
	}
	if !g.done {
		return fmt.Errorf("Start did not finish: %v", s.ParkedSummary())
	}
	if err != nil && moved > 0 {
		// the node process exits; the operator starts it again
		w.Stat("probe.start_failed_while_chain_moved")
		w.Logf("Start failed while the chain moved (%v): process restarted", err)
		inst.StartFailed = true
		inst.Crash()
		w.Stats["fault.crash"]-- // not an injected crash
		if e := inst.Open(); e != nil {
			return fmt.Errorf("reopen after failed start: %w", e)
		}
		return inst.StartSolo()
	}
	return err
}

// inject hands a queued notification to the wallet's listener, as the node's
// chain goroutine would.
//
//go:norace
func (inst *Instance) inject(d delivery) {
	inst.injectQ(d, false)
}

// mirror puts the newest queued notification into the wallet's own buffered
// channel right away, as the node's chain goroutine does: the channels (and
// their lengths, which wallet code may look at) hold everything that is
// announced and not yet taken. The scheduler still decides which ready case
// the handler's select takes: right before it releases the handler from its
// select gate it empties both channels and leaves only the chosen notification
// (or none, for the suspend hand-shake), and puts the others back, in order,
// once the handler has taken it (Sched.Do). No other goroutine runs in
// between, so nobody but the handler's select sees the emptied channels.
//
//go:norace
func (inst *Instance) mirror() {
	if inst.WM == nil || len(inst.Pending) == 0 {
		return
	}
	d := &inst.Pending[len(inst.Pending)-1]
	inst.pushReal(d)
}

//go:norace
func (inst *Instance) pushReal(d *delivery) {
	qb, qt := inst.WM.SimNotificationQueues()
	if qb == nil || d.inChan {
		return
	}
	// (a full channel would block the node; the simulator holds the
	// notification back instead and retries at the next refill)
	if d.block != nil && len(qb) >= cap(qb)-1 {
		return
	}
	if d.tx != nil && len(qt) >= cap(qt)-1 {
		return
	}
	inst.injectQ(*d, true)
	d.inChan = true
}

// drainReal empties both notification channels (their content is mirrored in
// Pending).
//
//go:norace
func (inst *Instance) drainReal() {
	if inst.WM == nil {
		return
	}
	qb, qt := inst.WM.SimNotificationQueues()
	if qb == nil {
		return
	}
	raceOff()
	for more := true; more; {
		select {
		case <-qb:
		case <-qt:
		default:
			more = false
		}
	}
	raceOn()
	for i := range inst.Pending {
		inst.Pending[i].inChan = false
	}
}

// refillReal puts every pending notification back into the channels, oldest
// first (per-kind order is what the channels preserve).
//
//go:norace
func (inst *Instance) refillReal() {
	if inst.WM == nil || inst.Dead || inst.Stopped {
		return
	}
	for i := range inst.Pending {
		inst.pushReal(&inst.Pending[i])
	}
}

//go:norace
func (inst *Instance) injectQ(d delivery, quiet bool) {
	if inst.W.LogOn && !quiet {
		if d.block != nil {
			inst.W.Logf("  deliver to %s: block h=%d %s (wallet synced=%d, node tip=%d)", inst.Name, d.block.Header.Height, d.block.BlockHash().String()[:10], inst.syncedQuiet(), inst.W.Node.Tip().Height)
		} else {
			inst.W.Logf("  deliver to %s: tx %s (wallet synced=%d, node tip=%d)", inst.Name, d.tx.TxHash().String()[:10], inst.syncedQuiet(), inst.W.Node.Tip().Height)
		}
	}
	for _, l := range inst.srv.listeners() {
		if d.block != nil {
			l.OnBlockConnected(d.block)
		} else if d.tx != nil {
			l.OnTransactionReceived(d.tx)
		}
	}
}

// Announce queues a tip notification for every running instance.
//
//go:norace
func (w *World) Announce(b *BlockRec) {
	for _, inst := range w.Insts {
		inst.srv0SetTip(w.Node.Tip())
		if inst.listening() {
			// the node hands the listener its own decoded copy
			blk, err := massutil.NewBlockFromBytes(b.Raw, wire.DB)
			if err != nil {
				panic(err)
			}
			inst.Pending = append(inst.Pending, delivery{block: blk.MsgBlock()})
			inst.mirror()
		}
	}
}

// AnnounceTx queues an unconfirmed transaction.
//
//go:norace
func (w *World) AnnounceTx(tx *wire.MsgTx) {
	w.Node.RegisterTx(tx)
	for _, inst := range w.Insts {
		if inst.listening() {
			cp := *tx
			inst.Pending = append(inst.Pending, delivery{tx: &cp})
			inst.mirror()
		}
	}
}

// listening reports whether the node would queue a notification for this
// instance: its listener is registered (WalletManager.Start registers it first
// thing, before the catch-up; Stop unregisters it) and the process is alive.
// Notifications arriving before the handler goroutine exists wait in the
// wallet's buffered channel; the simulator keeps them in Pending (same FIFO).
//
//go:norace
func (inst *Instance) listening() bool {
	return !inst.Dead && !inst.Stopped && !inst.StartFailed && len(inst.srvListeners()) > 0
}

//go:norace
func (inst *Instance) srvListeners() []blockchain.Listener {
	if inst.srv == nil {
		return nil
	}
	return inst.srv.listeners()
}

//go:norace
func (inst *Instance) srv0SetTip(b *BlockRec) {
	if inst.srv != nil {
		inst.srv.setTip(b)
	}
}

// SyncTips updates every instance's view of the node's best height (called
// after each node database step).
//
//go:norace
func (w *World) SyncTips() {
	t := w.Node.Tip()
	for _, inst := range w.Insts {
		inst.srv0SetTip(t)
	}
}

// Crash kills the instance: every goroutine of it is abandoned, volatile state
// is gone, the disk survives as a crash image.
//
//go:norace
func (inst *Instance) Crash() {
	s := inst.W.S
	s.mu.Lock()
	inst.Dead = true
	s.CrashRequested = false
	s.mu.Unlock()
	s.ForgetInstance(inst)
	keep := inst.Disk.KeepTape
	inst.Disk = inst.Disk.CrashImage()
	inst.Disk.KeepTape = keep
	inst.WM = nil
	inst.Pending = nil
	inst.Started = false
	inst.W.Stat("fault.crash")
}

// SortedWalletIDs lists the harness-known wallets of the instance.
//
//go:norace
func (inst *Instance) SortedWalletIDs() []string {
	var ids []string
	for id := range inst.Wallets {
		ids = append(ids, id)
	}
	sort.Strings(ids)
	return ids
}

// syncedQuiet reads the wallet's synced height for logging (ungated).
//
//go:norace
func (inst *Instance) syncedQuiet() uint64 {
	if inst.WM == nil {
		return 0
	}
	h, _ := inst.WM.SyncedTo()
	return h
}

// CurrentParked describes where the goroutines of the running world are
// parked (watchdog diagnostics; reads without the scheduler lock).
//
//go:norace
func CurrentParked() string {
	w := currentWorld
	if w == nil || w.S == nil {
		return "-"
	}
	var out []string
	for _, g := range w.S.order {
		if !g.done {
			out = append(out, g.String()+"@"+g.parked)
		}
	}
	return strings.Join(out, " ")
}

// walletMutexHeld probes the wallet's internal mutexes (keystore manager,
// address managers, coin store, pending set) with TryLock. It is called by a
// goroutine about to park at a read gate: all other goroutines are parked and,
// by this very rule, hold none of them, so a held mutex is held by the caller.
// Parking there would let another goroutine run into that mutex, and a mutex
// wait is invisible to the bubble.
//
// shortMutexHeld probes the mutexes the wallet only ever holds for short
// in-memory sections (the handler's pending-set / tip mutex, the coin store's
// mutex): on this tree none of them is held across a gate. A goroutine that
// reaches one of the hand-shake gates with such a mutex locked is not parked
// there (Sched.Gate): parked, it would keep the mutex while other goroutines
// run into it, and a mutex wait is invisible to the bubble. Unparked, it goes
// on to the real blocking operation (the channel hand-shake), and a lock-order
// inversion between mutex and hand-shake shows up as what it is: nothing
// enabled, everyone blocked (HangVerdict).
//
//go:norace
func (inst *Instance) shortMutexHeld() bool {
	if inst.WM == nil {
		return false
	}
	raceOff()
	defer raceOn()
	wm := reflect.ValueOf(inst.WM).Elem()
	for _, fm := range [][2]string{{"ntfnsHandler", "memMtx"}, {"utxoStore", "muUtxo"}} {
		v := wm.FieldByName(fm[0])
		if !v.IsValid() || (v.Kind() == reflect.Ptr && v.IsNil()) {
			continue
		}
		if v.Kind() == reflect.Ptr {
			v = v.Elem()
		}
		f := v.FieldByName(fm[1])
		if !f.IsValid() {
			continue
		}
		m := (*sync.Mutex)(unsafe.Pointer(f.UnsafeAddr()))
		if m.TryLock() {
			m.Unlock()
			continue
		}
		return true
	}
	return false
}

// shortMutexAddrs returns the addresses of the instance's short-section
// mutexes (for the watchdog's reading of goroutine stacks).
//
//go:norace
func (inst *Instance) shortMutexAddrs() []uintptr {
	if inst.WM == nil || inst.Dead {
		return nil
	}
	var out []uintptr
	wm := reflect.ValueOf(inst.WM).Elem()
	for _, fm := range [][2]string{{"ntfnsHandler", "memMtx"}, {"utxoStore", "muUtxo"}} {
		v := wm.FieldByName(fm[0])
		if !v.IsValid() || (v.Kind() == reflect.Ptr && v.IsNil()) {
			continue
		}
		if v.Kind() == reflect.Ptr {
			v = v.Elem()
		}
		if f := v.FieldByName(fm[1]); f.IsValid() {
			out = append(out, f.UnsafeAddr())
		}
	}
	return out
}

//go:norace
func (inst *Instance) walletMutexHeld() bool {
	if inst.WM == nil {
		return false
	}
	raceOff()
	defer raceOn()
	try := func(v reflect.Value, name string) bool {
		if !v.IsValid() || (v.Kind() == reflect.Ptr && v.IsNil()) {
			return false
		}
		if v.Kind() == reflect.Ptr {
			v = v.Elem()
		}
		f := v.FieldByName(name)
		if !f.IsValid() {
			return false
		}
		m := (*sync.Mutex)(unsafe.Pointer(f.UnsafeAddr()))
		if m.TryLock() {
			m.Unlock()
			return false
		}
		return true
	}
	wm := reflect.ValueOf(inst.WM).Elem()
	ks := wm.FieldByName("ksmgr")
	if try(ks, "mu") || try(wm.FieldByName("utxoStore"), "muUtxo") || try(wm.FieldByName("ntfnsHandler"), "memMtx") {
		return true
	}
	if ks.IsValid() && !ks.IsNil() {
		mk := ks.Elem().FieldByName("managedKeystores")
		if mk.IsValid() && mk.Kind() == reflect.Map {
			for _, k := range mk.MapKeys() {
				if try(mk.MapIndex(k), "mu") {
					return true
				}
			}
		}
	}
	return false
}
