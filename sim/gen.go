package sim

// Chain and transaction generator. Every choice is drawn from the plan tape.
// Generated chains respect the consensus rules the real node enforces and the
// wallet relies on (coinbase maturity, sequence locks, legal script forms, no
// binding input together with a binding output); the wallet never checks
// signatures, so generated spends carry dummy witnesses.

import (
	"bytes"
	"encoding/binary"
	"sort"
	"time"

	"github.com/massnetorg/mass-core/consensus"
	"github.com/massnetorg/mass-core/massutil"
	"github.com/massnetorg/mass-core/txscript"
	"github.com/massnetorg/mass-core/wire"
)

type genCoin struct {
	op       wire.OutPoint
	value    int64
	pk       []byte
	height   uint64
	coinbase bool
	cls      CoinClass
	frozen   uint64
	newBind  bool
	owner    int // party index, -1 unknown
}

//go:norace
func (c *genCoin) lock() uint64 {
	switch {
	case c.coinbase:
		return consensus.CoinbaseMaturity
	case c.cls == ClassStaking:
		return c.frozen + 1
	case c.cls == ClassBinding && c.newBind:
		return consensus.MASSIP0002BindingLockedPeriod
	}
	return 0
}

// Party is a recipient: a wallet address or a stranger's script hash.
type Party struct {
	Name   string
	Wallet *WalletState // nil for strangers
	Hashes [][32]byte   // script hashes this party may be paid at
}

type Gen struct {
	W       *World
	Parties []*Party
	utxo    map[*BlockRec]map[wire.OutPoint]*genCoin
	nonce   uint64
	Mempool []*wire.MsgTx // announced, not (yet) confirmed on the best chain
	// weights, set per property
	TxKindW     []int
	MaxTxs      int
	NullDataPct int
	lastStamp   time.Time
}

const (
	txPay = iota
	txStake
	txBind
	txWithdrawStake
	txWithdrawBind
	txSweepMany
	nTxKinds
)

//go:norace
func NewGen(w *World) *Gen {
	g := &Gen{W: w, utxo: map[*BlockRec]map[wire.OutPoint]*genCoin{}, MaxTxs: 3}
	g.TxKindW = []int{10, 2, 2, 3, 3, 1}
	g.NullDataPct = 4
	g.lastStamp = w.Params.GenesisBlock.Header.Timestamp
	// two strangers with fixed script hashes
	for i := 0; i < 2; i++ {
		var h [32]byte
		for j := range h {
			h[j] = byte(0xA0 + i)
		}
		h[0] = byte(i + 1)
		g.Parties = append(g.Parties, &Party{Name: "stranger", Hashes: [][32]byte{h}})
	}
	return g
}

// AddWalletParty registers (or refreshes) a wallet as a payee with its issued
// addresses.
//
//go:norace
func (g *Gen) AddWalletParty(ws *WalletState) {
	var p *Party
	for _, q := range g.Parties {
		if q.Wallet != nil && q.Wallet.ID == ws.ID {
			p = q
		}
	}
	if p == nil {
		p = &Party{Name: ws.ID, Wallet: ws}
		g.Parties = append(g.Parties, p)
	}
	p.Wallet = ws
	p.Hashes = p.Hashes[:0]
	seen := map[uint32]bool{}
	for _, ia := range ws.Issued {
		if seen[ia.Index] {
			continue
		}
		seen[ia.Index] = true
		a := ws.HD.Addr(ia.Index)
		var h [32]byte
		copy(h[:], a.ScriptHash)
		p.Hashes = append(p.Hashes, h)
	}
}

//go:norace
func (g *Gen) ownerOf(pk []byte) int {
	_, holder, _, _, ok := classify(pk)
	if !ok {
		return -1
	}
	for i, p := range g.Parties {
		for _, h := range p.Hashes {
			if h == holder {
				return i
			}
		}
	}
	return -1
}

//go:norace
func (g *Gen) coinFromOut(op wire.OutPoint, out *wire.TxOut, height uint64, cb bool) *genCoin {
	cls, _, fz, target, _ := classify(out.PkScript)
	return &genCoin{op: op, value: out.Value, pk: out.PkScript, height: height, coinbase: cb, cls: cls,
		frozen: fz, newBind: cls == ClassBinding && len(target) == 22, owner: g.ownerOf(out.PkScript)}
}

// utxoAt returns the unspent set after block b (memoised, copy on extend).
//
//go:norace
func (g *Gen) utxoAt(b *BlockRec) map[wire.OutPoint]*genCoin {
	if m, ok := g.utxo[b]; ok {
		return m
	}
	var m map[wire.OutPoint]*genCoin
	if b.Parent == nil {
		m = map[wire.OutPoint]*genCoin{}
	} else {
		pm := g.utxoAt(b.Parent)
		m = make(map[wire.OutPoint]*genCoin, len(pm)+4)
		for k, v := range pm {
			m[k] = v
		}
		for _, tx := range b.Msg.Transactions {
			cb := tx.IsCoinBaseTx()
			if !cb {
				for _, in := range tx.TxIn {
					delete(m, in.PreviousOutPoint)
				}
			}
			h := tx.TxHash()
			for i, out := range tx.TxOut {
				op := wire.OutPoint{Hash: h, Index: uint32(i)}
				m[op] = g.coinFromOut(op, out, b.Height, cb)
			}
		}
	}
	g.utxo[b] = m
	return m
}

//go:norace
func sortedCoins(m map[wire.OutPoint]*genCoin) []*genCoin {
	out := make([]*genCoin, 0, len(m))
	for _, c := range m {
		out = append(out, c)
	}
	sort.Slice(out, func(i, j int) bool {
		if c := bytes.Compare(out[i].op.Hash[:], out[j].op.Hash[:]); c != 0 {
			return c < 0
		}
		return out[i].op.Index < out[j].op.Index
	})
	return out
}

//go:norace
func stdScript(h [32]byte) []byte {
	s, err := txscript.PayToWitnessScriptHashScript(h[:])
	if err != nil {
		panic(err)
	}
	return s
}

//go:norace
func stakingScript(h [32]byte, frozen uint64) []byte {
	// OP_0 <32-byte hash> <8-byte little-endian frozen period>
	buf := make([]byte, 8)
	binary.LittleEndian.PutUint64(buf, frozen)
	s, err := txscript.NewScriptBuilder().AddOp(txscript.OP_0).AddData(h[:]).AddData(buf).Script()
	if err != nil {
		panic(err)
	}
	return s
}

//go:norace
func bindingScript(h [32]byte, target []byte) []byte {
	s, err := txscript.PayToBindingScriptHashScript(h[:], target)
	if err != nil {
		panic(err)
	}
	return s
}

// pickPayee draws a recipient script hash; walletBias percent of draws go to a
// wallet party when one exists.
//
//go:norace
func (g *Gen) pickPayee(t *Tape, walletBias int) (h [32]byte, party int) {
	var wallets []int
	for i, p := range g.Parties {
		if p.Wallet != nil && len(p.Hashes) > 0 {
			wallets = append(wallets, i)
		}
	}
	if len(wallets) > 0 && t.Bool(walletBias) {
		party = wallets[t.Int(len(wallets))]
	} else {
		party = t.Int(2) // strangers are parties 0 and 1
	}
	p := g.Parties[party]
	return p.Hashes[t.Int(len(p.Hashes))], party
}

//go:norace
func dummyWitness() wire.TxWitness { return wire.TxWitness{[]byte{0x01}, []byte{0x51}} }

// buildTx draws one transaction valid on top of view at height h. spent marks
// outpoints already consumed in the block being assembled. It returns nil when
// the drawn kind cannot be built.
//
//go:norace
func (g *Gen) buildTx(t *Tape, view map[wire.OutPoint]*genCoin, inBlock []*genCoin, spent map[wire.OutPoint]bool, h uint64) *wire.MsgTx {
	kind := t.Weighted(g.TxKindW)
	// candidate inputs: unspent, lock satisfied at height h
	var cands []*genCoin
	for _, c := range append(sortedCoins(view), inBlock...) {
		if spent[c.op] || c.value <= 0 {
			continue
		}
		if h < c.height || h-c.height < c.lock() {
			continue
		}
		cands = append(cands, c)
	}
	filter := func(f func(*genCoin) bool) []*genCoin {
		var out []*genCoin
		for _, c := range cands {
			if f(c) {
				out = append(out, c)
			}
		}
		return out
	}
	tx := wire.NewMsgTx()
	var ins []*genCoin
	switch kind {
	case txWithdrawStake:
		l := filter(func(c *genCoin) bool { return c.cls == ClassStaking })
		if len(l) == 0 {
			return nil
		}
		ins = append(ins, l[t.Int(len(l))])
	case txWithdrawBind:
		l := filter(func(c *genCoin) bool { return c.cls == ClassBinding })
		if len(l) == 0 {
			return nil
		}
		ins = append(ins, l[t.Int(len(l))])
	default:
		l := filter(func(c *genCoin) bool { return c.cls == ClassStd })
		if len(l) == 0 {
			return nil
		}
		// prefer coins owned by wallets half of the time
		if t.Bool(50) {
			wl := filter(func(c *genCoin) bool { return c.cls == ClassStd && c.owner >= 2 })
			if len(wl) > 0 {
				l = wl
			}
		}
		n := 1 + t.Int(3)
		if kind == txSweepMany {
			n = 2 + t.Int(4)
		}
		used := map[wire.OutPoint]bool{}
		for i := 0; i < n && i < len(l); i++ {
			c := l[t.Int(len(l))]
			if used[c.op] {
				continue
			}
			used[c.op] = true
			ins = append(ins, c)
		}
	}
	total := int64(0)
	for _, c := range ins {
		in := wire.NewTxIn(&c.op, dummyWitness())
		switch {
		case c.cls == ClassStaking:
			in.Sequence = c.frozen + 1
		case c.cls == ClassBinding && c.newBind:
			in.Sequence = consensus.MASSIP0002BindingLockedPeriod
		}
		tx.AddTxIn(in)
		total += c.value
	}
	fee := int64(1000 + t.Int(3)*500)
	if total <= fee+10 {
		return nil
	}
	avail := total - fee
	addStd := func(v int64) {
		hh, _ := g.pickPayee(t, 65)
		tx.AddTxOut(wire.NewTxOut(v, stdScript(hh)))
	}
	switch kind {
	case txStake:
		minV := int64(consensus.MinStakingValue)
		if avail < minV+2 {
			addStd(avail)
			break
		}
		hh, _ := g.pickPayee(t, 80)
		fz := consensus.MinFrozenPeriod + uint64(t.Int(4))
		v := minV + int64(t.Int(int(minInt64(avail-minV, 1000))))
		tx.AddTxOut(wire.NewTxOut(v, stakingScript(hh, fz)))
		// sometimes a second deposit in the same transaction
		if avail-v >= minV+2 && t.Bool(30) {
			h2, _ := g.pickPayee(t, 80)
			v2 := minV + int64(t.Int(int(minInt64(avail-v-minV, 1000))))
			tx.AddTxOut(wire.NewTxOut(v2, stakingScript(h2, consensus.MinFrozenPeriod+uint64(t.Int(4)))))
			v += v2
			g.W.Stat("gen.two_deposits_in_one_tx")
		}
		if avail-v > 0 {
			addStd(avail - v)
		}
	case txBind:
		hh, _ := g.pickPayee(t, 80)
		var target []byte
		if h >= consensus.MASSIP0002WarmUpHeight {
			target = make([]byte, 22)
			g.nonce++
			binary.BigEndian.PutUint64(target[4:], g.nonce)
			target[20] = 0 // proof type: default
			target[21] = 24
		} else {
			target = make([]byte, 20)
			g.nonce++
			binary.BigEndian.PutUint64(target[4:], g.nonce)
		}
		v := avail/2 + 1
		tx.AddTxOut(wire.NewTxOut(v, bindingScript(hh, target)))
		if avail-v > 2000 && t.Bool(30) {
			// a second binding deposit (distinct target) in the same transaction
			h2, _ := g.pickPayee(t, 80)
			t2 := append([]byte(nil), target...)
			g.nonce++
			binary.BigEndian.PutUint64(t2[4:], g.nonce)
			v2 := (avail - v) / 2
			tx.AddTxOut(wire.NewTxOut(v2, bindingScript(h2, t2)))
			v += v2
			g.W.Stat("gen.two_deposits_in_one_tx")
		}
		if avail-v > 0 {
			addStd(avail - v)
		}
	default:
		n := 1 + t.Int(3)
		rest := avail
		for i := 0; i < n && rest > 0; i++ {
			v := rest
			if i < n-1 {
				v = rest/2 + int64(t.Int(7))
				if v >= rest {
					v = rest
				}
			}
			if v <= 0 {
				break
			}
			addStd(v)
			rest -= v
		}
	}
	if len(tx.TxOut) == 0 {
		return nil
	}
	if g.NullDataPct > 0 && t.Bool(g.NullDataPct) {
		// a data-carrier output: legal in blocks (consensus rejects only
		// non-standard and bare multisig output scripts)
		g.nonce++
		data := make([]byte, 8)
		binary.BigEndian.PutUint64(data, g.nonce)
		sc, err := txscript.NewScriptBuilder().AddOp(txscript.OP_RETURN).AddData(data).Script()
		if err != nil {
			panic(err)
		}
		tx.AddTxOut(wire.NewTxOut(0, sc))
		g.W.Stat("gen.nulldata_output")
	}
	g.nonce++
	tx.LockTime = 0
	// make otherwise identical transactions distinct
	tx.Payload = nil
	for _, c := range ins {
		spent[c.op] = true
	}
	return tx
}

//go:norace
func minInt64(a, b int64) int64 {
	if a < b {
		return a
	}
	return b
}

// txValidOn reports whether tx can be mined at height h on top of view (plus
// the coins created earlier in the same block).
//
//go:norace
func (g *Gen) txValidOn(tx *wire.MsgTx, view map[wire.OutPoint]*genCoin, inBlock map[wire.OutPoint]*genCoin, spent map[wire.OutPoint]bool, h uint64) bool {
	hasBindIn, hasBindOut := false, false
	for _, in := range tx.TxIn {
		c := view[in.PreviousOutPoint]
		if c == nil {
			c = inBlock[in.PreviousOutPoint]
		}
		if c == nil || spent[in.PreviousOutPoint] {
			return false
		}
		if h < c.height || h-c.height < c.lock() {
			return false
		}
		if c.cls == ClassBinding {
			hasBindIn = true
		}
	}
	for _, out := range tx.TxOut {
		cls, _, _, target, ok := classify(out.PkScript)
		if ok && cls == ClassBinding {
			hasBindOut = true
			want := 20
			if h >= consensus.MASSIP0002WarmUpHeight {
				want = 22
			}
			if len(target) != want {
				return false
			}
		}
	}
	return !(hasBindIn && hasBindOut)
}

// NewBlock assembles a block on parent with a coinbase and the given
// transactions (already validated by the caller).
//
//go:norace
func (g *Gen) NewBlock(t *Tape, parent *BlockRec, txs []*wire.MsgTx) *BlockRec {
	hdr := g.W.Params.GenesisBlock.Header
	hdr.Height = parent.Height + 1
	hdr.Previous = parent.Hash
	g.lastStamp = g.lastStamp.Add(30 * time.Second)
	hdr.Timestamp = g.lastStamp
	msg := wire.NewMsgBlock(&hdr)
	// coinbase
	g.nonce++
	cb := wire.NewMsgTx()
	cbIn := wire.NewTxIn(&wire.OutPoint{Hash: wire.Hash{}, Index: wire.MaxPrevOutIndex}, nil)
	cb.AddTxIn(cbIn)
	payload := make([]byte, 16)
	binary.BigEndian.PutUint64(payload, hdr.Height)
	binary.BigEndian.PutUint64(payload[8:], g.nonce)
	cb.Payload = payload
	nOut := 1 + t.Int(2)
	for i := 0; i < nOut; i++ {
		var hh [32]byte
		if t == zeroTape {
			hh = g.Parties[0].Hashes[0]
		} else {
			hh, _ = g.pickPayee(t, 60)
		}
		cb.AddTxOut(wire.NewTxOut(int64(100000000+int64(t.Int(5))*1000000+int64(hdr.Height)), stdScript(hh)))
	}
	msg.AddTransaction(cb)
	for _, tx := range txs {
		msg.AddTransaction(tx)
	}
	// commit to the transactions so that sibling blocks have distinct hashes
	var buf bytes.Buffer
	for _, tx := range msg.Transactions {
		h := tx.TxHash()
		buf.Write(h[:])
	}
	msg.Header.TransactionRoot = wire.DoubleHashH(buf.Bytes())
	b, err := g.W.Node.NewBlockRec(parent, msg)
	if err != nil {
		panic(err)
	}
	return b
}

// GenBlock draws a block on top of parent. carry lists transactions that
// should be considered for inclusion first (mempool / rolled-back ones), each
// taken with probability carryPct when still valid.
//
//go:norace
func (g *Gen) GenBlock(t *Tape, parent *BlockRec, carry []*wire.MsgTx, carryPct int) *BlockRec {
	h := parent.Height + 1
	view := g.utxoAt(parent)
	spent := map[wire.OutPoint]bool{}
	inBlockMap := map[wire.OutPoint]*genCoin{}
	var inBlock []*genCoin
	var txs []*wire.MsgTx
	add := func(tx *wire.MsgTx) {
		txs = append(txs, tx)
		th := tx.TxHash()
		for _, in := range tx.TxIn {
			spent[in.PreviousOutPoint] = true
		}
		for i, out := range tx.TxOut {
			op := wire.OutPoint{Hash: th, Index: uint32(i)}
			c := g.coinFromOut(op, out, h, false)
			inBlockMap[op] = c
			inBlock = append(inBlock, c)
		}
	}
	for _, tx := range carry {
		if !t.Bool(carryPct) {
			continue
		}
		if _, on := g.confirmedOnBranch(parent, tx.TxHash()); on {
			continue
		}
		if g.txValidOn(tx, view, inBlockMap, spent, h) {
			add(tx)
			g.W.Stat("gen.carried_tx")
		}
	}
	n := t.Int(g.MaxTxs + 1)
	for i := 0; i < n; i++ {
		// inBlock coins are spendable only by later transactions of the block
		tx := g.buildTx(t, view, inBlock, spent, h)
		if tx != nil {
			add(tx)
		}
	}
	return g.NewBlock(t, parent, txs)
}

// confirmedOnBranch reports whether tx hash is mined on the chain ending at b.
//
//go:norace
func (g *Gen) confirmedOnBranch(b *BlockRec, h wire.Hash) (uint64, bool) {
	for x := b; x != nil; x = x.Parent {
		for _, th := range x.TxHashes {
			if th == h {
				return x.Height, true
			}
		}
	}
	return 0, false
}

// GenLooseTx draws a transaction valid for the next block on the best tip
// without mining it (an unconfirmed transaction). Inputs may also be outputs
// of transactions already in the mempool list.
//
//go:norace
func (g *Gen) GenLooseTx(t *Tape) *wire.MsgTx {
	tip := g.W.Node.Tip()
	view := g.utxoAt(tip)
	spent := map[wire.OutPoint]bool{}
	var inBlock []*genCoin
	allowConflict := t.Bool(25)
	for _, m := range g.Mempool {
		if _, on := g.W.Node.OnBestChain(m.TxHash()); on {
			continue
		}
		if !allowConflict {
			for _, in := range m.TxIn {
				spent[in.PreviousOutPoint] = true
			}
		}
		if t.Bool(50) {
			th := m.TxHash()
			for i, out := range m.TxOut {
				op := wire.OutPoint{Hash: th, Index: uint32(i)}
				inBlock = append(inBlock, g.coinFromOut(op, out, tip.Height+1, false))
			}
		}
	}
	tx := g.buildTx(t, view, inBlock, spent, tip.Height+1)
	return tx
}

// addrString renders the standard address of a script hash.
//
//go:norace
func (g *Gen) addrString(h [32]byte) string {
	a, err := massutil.NewAddressWitnessScriptHash(h[:], g.W.Params)
	if err != nil {
		panic(err)
	}
	return a.EncodeAddress()
}
