package sim

// Oracles for C09 (pending transactions), C10 (staking/binding lifecycle) and
// C12 (address issue/use), all evaluated at quiescent points against the
// ledger model and the independent key derivation, plus their runners.

import (
	"encoding/hex"
	"errors"
	"fmt"
	"os"
	"sort"
	"strings"

	"github.com/massnetorg/mass-core/consensus"
	"github.com/massnetorg/mass-core/massutil"
	"github.com/massnetorg/mass-core/wire"
	"massnet.org/mass-wallet/masswallet"
	"massnet.org/mass-wallet/masswallet/keystore"
	"massnet.org/mass-wallet/masswallet/txmgr"
)

//go:norace
func init() {
	Runners["C09"] = func(w *World, p map[string]int) { runFamily(w, p, "C09") }
	Runners["C10"] = func(w *World, p map[string]int) { runFamily(w, p, "C10") }
	Runners["C12"] = func(w *World, p map[string]int) { runFamily(w, p, "C12") }
}

// ---------------- C10: staking / binding histories ----------------

type gameRow struct {
	TxID    string
	Index   uint32
	Height  uint64
	Amount  int64
	Frozen  uint64
	Address string // staking address (staking) or holder address (binding)
	Target  string // binding target script bytes, hex
	Spent   bool
}

//go:norace
func (g gameRow) String() string {
	return fmt.Sprintf("%s:%d h=%d amt=%d frozen=%d addr=%s target=%s spent=%v", g.TxID[:12], g.Index, g.Height, g.Amount, g.Frozen, g.Address, g.Target, g.Spent)
}

//go:norace
func sortRows(r []gameRow) {
	sort.Slice(r, func(i, j int) bool {
		if r[i].TxID != r[j].TxID {
			return r[i].TxID < r[j].TxID
		}
		return r[i].Index < r[j].Index
	})
}

//go:norace
func diffRows(kind string, got, want []gameRow) string {
	sortRows(got)
	sortRows(want)
	gm := map[string]gameRow{}
	var d []string
	for _, g := range got {
		k := fmt.Sprintf("%s:%d", g.TxID, g.Index)
		if _, dup := gm[k]; dup {
			d = append(d, kind+" deposit listed twice: "+g.String())
		}
		gm[k] = g
	}
	wm := map[string]gameRow{}
	for _, x := range want {
		wm[fmt.Sprintf("%s:%d", x.TxID, x.Index)] = x
	}
	for k, x := range wm {
		g, ok := gm[k]
		if !ok {
			d = append(d, kind+" deposit missing: "+x.String())
		} else if g != x {
			d = append(d, fmt.Sprintf("%s deposit differs: got {%s} want {%s}", kind, g, x))
		}
	}
	for k, g := range gm {
		if _, ok := wm[k]; !ok {
			d = append(d, kind+" deposit phantom: "+g.String())
		}
	}
	sort.Strings(d)
	if len(d) > 6 {
		d = append(d[:6], fmt.Sprintf("... and %d more", len(d)-6))
	}
	return strings.Join(d, "; ")
}

// CheckGames compares the mined staking and binding histories of the selected
// wallet with the deposits of the ledger model.
//
//go:norace
func (w *World) CheckGames(inst *Instance, ws *WalletState, l *Ledger, class string) {
	var sh, shx []*txmgr.StakingHistoryDetail
	var bh, bhx []*txmgr.BindingHistoryDetail
	var e1, e2, e3, e4 error
	if _, err := inst.Use(ws.ID, true); err != nil {
		w.Violate(class+".observe-error", "UseWallet: %v", err)
		return
	}
	if !inst.RunCall("Histories", true, func() {
		sh, e1 = inst.WM.GetStakingHistory(false)
		bh, e2 = inst.WM.GetBindingHistory(false)
		shx, e3 = inst.WM.GetStakingHistory(true)
		bhx, e4 = inst.WM.GetBindingHistory(true)
	}) {
		return
	}
	for _, e := range []error{e1, e2, e3, e4} {
		if e != nil {
			w.Violate(class+".history-error", "history query failed: %v", e)
			return
		}
	}
	stk := func(list []*txmgr.StakingHistoryDetail) []gameRow {
		var out []gameRow
		for _, d := range list {
			if d.BlockHeight == 0 {
				continue // pending entries are C09's business
			}
			out = append(out, gameRow{TxID: d.TxHash.String(), Index: d.Index, Height: d.BlockHeight, Amount: amt(d.Utxo.Amount),
				Frozen: uint64(d.Utxo.FrozenPeriod), Address: d.Utxo.Address, Spent: d.Utxo.Spent})
		}
		return out
	}
	bnd := func(list []*txmgr.BindingHistoryDetail) []gameRow {
		var out []gameRow
		for _, d := range list {
			if d.BlockHeight == 0 {
				continue
			}
			r := gameRow{TxID: d.TxHash.String(), Index: d.Index, Height: d.BlockHeight, Amount: amt(d.Utxo.Amount), Spent: d.Utxo.Spent}
			if d.Utxo.Holder != nil {
				r.Address = d.Utxo.Holder.EncodeAddress()
			}
			if d.Utxo.BindingTarget != nil {
				r.Target = hex.EncodeToString(d.Utxo.BindingTarget.ScriptAddress())
			}
			out = append(out, r)
		}
		return out
	}
	var wantS, wantB, wantSx, wantBx []gameRow
	for _, g := range l.Games {
		r := gameRow{TxID: g.Op.Hash.String(), Index: g.Op.Index, Height: g.Height, Amount: g.Amount, Spent: g.Withdrawn}
		if g.Binding {
			r.Address = w.Gen.addrString(g.Holder)
			r.Target = hex.EncodeToString(g.Target)
			wantB = append(wantB, r)
			if !g.Withdrawn {
				wantBx = append(wantBx, r)
			}
		} else {
			a, err := massutil.NewAddressStakingScriptHash(g.Holder[:], w.Params)
			if err != nil {
				panic(err)
			}
			r.Address = a.EncodeAddress()
			r.Frozen = g.Frozen
			wantS = append(wantS, r)
			if !g.Withdrawn {
				wantSx = append(wantSx, r)
			}
		}
	}
	for _, c := range []struct {
		kind      string
		got, want []gameRow
	}{{"staking", stk(sh), wantS}, {"binding", bnd(bh), wantB}, {"staking(exclude withdrawn)", stk(shx), wantSx}, {"binding(exclude withdrawn)", bnd(bhx), wantBx}} {
		if d := diffRows(c.kind, c.got, c.want); d != "" {
			w.Violate(class+".history-mismatch", "wallet %s at height %d: %s", ws.ID, l.Tip, d)
			return
		}
	}
	w.Stat("check.games")
	if len(l.Games) > 0 {
		w.Stat("check.games.nonempty")
	}
	for _, g := range l.Games {
		if g.Withdrawn {
			w.Stat("probe.deposit_withdrawn_on_best_chain")
			break
		}
	}
}

// CheckWithdrawSequences builds (without signing) a withdrawal of every
// staking / binding coin of the model through the explicit-input API and
// checks the sequence value of the input against the consensus rule.
//
//go:norace
func (w *World) CheckWithdrawSequences(inst *Instance, ws *WalletState, l *Ledger, class string) {
	if _, err := inst.Use(ws.ID, true); err != nil {
		return
	}
	var coins []*Coin
	for _, c := range l.Coins {
		if c.Class != ClassStd {
			coins = append(coins, c)
		}
	}
	sort.Slice(coins, func(i, j int) bool { return coins[i].Op.String() < coins[j].Op.String() })
	if len(coins) > 3 {
		coins = coins[:3]
	}
	for ci, c := range coins {
		// with and without a transaction lock time (which changes the default
		// sequence of ordinary inputs, never the required relative lock)
		lockTime := uint64(0)
		if ci%2 == 1 {
			lockTime = 500 + uint64(ci)
		}
		dest := w.Gen.addrString(c.Holder)
		amounts := map[string]massutil.Amount{}
		inputs := []*masswallet.TxIn{{TxId: c.Op.Hash.String(), Vout: c.Op.Index}}
		total := c.Amount
		helper := false
		if c.Amount < 400000 {
			// a small deposit (the generator's staking deposits are) cannot pay
			// the fee itself: an ordinary spendable coin of the wallet comes
			// second and funds it
			var std []*Coin
			for _, o := range l.Coins {
				if o.Class == ClassStd && !o.Coinbase && o.SpendableAt(l.Tip) && o.Amount >= 400000 {
					std = append(std, o)
				}
			}
			if len(std) == 0 {
				continue
			}
			sort.Slice(std, func(i, j int) bool { return std[i].Op.String() < std[j].Op.String() })
			h := std[ci%len(std)]
			inputs = append(inputs, &masswallet.TxIn{TxId: h.Op.Hash.String(), Vout: h.Op.Index})
			total += h.Amount
			helper = true
		}
		a, _ := massutil.NewAmountFromInt(total - 300000)
		amounts[dest] = a
		var hexTx string
		var err error
		if !inst.RunCall("CreateRawTransaction", true, func() {
			hexTx, _, err = inst.WM.CreateRawTransaction(inputs, amounts, lockTime, "", nil)
		}) {
			return
		}
		if err != nil && helper {
			// the helper coin may be unusable for reasons of its own (spent by a
			// pending transaction): not this check's business
			w.Stat("probe.withdraw_with_helper_refused")
			continue
		}
		if err != nil {
			w.Violate(class+".withdraw-build-failed", "building a withdrawal of %v (class %d, height %d, tip %d) failed: %v", c.Op, c.Class, c.Height, l.Tip, err)
			return
		}
		raw, derr := hex.DecodeString(hexTx)
		var tx wire.MsgTx
		if derr == nil {
			derr = tx.SetBytes(raw, wire.Packet)
		}
		if derr != nil || len(tx.TxIn) != len(inputs) || tx.TxIn[0].PreviousOutPoint != c.Op {
			w.Violate(class+".withdraw-build-failed", "withdrawal transaction not decodable or inputs changed: %v", derr)
			return
		}
		seq := tx.TxIn[0].Sequence
		need := c.Lock()
		if c.Coinbase {
			need = 0
		}
		if need > 0 {
			if seq&wire.SequenceLockTimeDisabled != 0 || seq&wire.SequenceLockTimeIsSeconds != 0 || seq&wire.SequenceLockTimeMask != need {
				w.Violate(class+".withdraw-sequence", "withdrawal input of %v (class %d) carries sequence %#x, consensus needs a block-relative lock of exactly %d", c.Op, c.Class, seq, need)
				return
			}
		}
		if need == 0 && seq&wire.SequenceLockTimeDisabled == 0 {
			// consensus needs no relative lock for this deposit: whatever the
			// wallet writes must not keep the next block from including it
			rel := seq & wire.SequenceLockTimeMask
			if seq&wire.SequenceLockTimeIsSeconds != 0 || l.Tip+1 < c.Height || rel > l.Tip+1-c.Height {
				w.Violate(class+".withdraw-sequence", "withdrawal input of %v (class %d, confirmed at %d, tip %d) carries sequence %#x, a relative lock consensus does not ask for: the next block cannot include it", c.Op, c.Class, c.Height, l.Tip, seq)
				return
			}
		}
		inst.RunCall("ClearUsed", true, func() { inst.WM.ClearUsedUTXOMark(&tx) })
		w.Stat("check.withdraw_sequence")
		switch {
		case c.Class == ClassStaking:
			w.Stat("check.withdraw_sequence.staking")
		case need == 0:
			w.Stat("check.withdraw_sequence.binding_without_lock")
		default:
			w.Stat("check.withdraw_sequence.binding_locked")
		}
	}
}

// ---------------- C12: addresses ----------------

// IssueAddress requests a new address and checks it against the independent
// derivation and the gap rule. It returns the error of the API call.
//
//go:norace
func (w *World) IssueAddress(inst *Instance, ws *WalletState, staking bool, solo bool, class string) error {
	if _, err := inst.Use(ws.ID, true); err != nil {
		return err
	}
	n := uint32(0)
	if k := len(ws.Issued); k > 0 {
		n = ws.Issued[k-1].Index + 1
	}
	gap := inst.Cfg.Wallet.Settings.AddressGapLimit
	// the rule as stated: refused when none of the last gap-limit addresses has chain history
	mustRefuse, mayIssue := false, true
	if solo {
		if n != 0 && n+1 > gap {
			used := false
			for i := n - gap; i < n; i++ {
				a := ws.HD.Addr(i)
				ok, _ := w.Node.CheckScriptHashUsed(a.ScriptHash)
				if ok {
					used = true
				}
			}
			mustRefuse, mayIssue = !used, used
		}
	}
	before := len(ws.Issued)
	addr, err := inst.NewAddress(staking, solo)
	if errors.Is(err, ErrCrashed) {
		return err
	}
	if !solo {
		// the chain may move while the call is in flight: only the derivation
		// is checked
		mustRefuse, mayIssue = false, true
	}
	if err != nil {
		if err == keystore.ErrGapLimit {
			w.Stat("probe.gap_limit_refusal")
			if !mustRefuse && solo {
				w.Violate(class+".gap-refused-wrongly", "wallet %s: address %d refused although one of the last %d addresses has chain history", ws.ID, n, gap)
			}
			return err
		}
		w.Violate(class+".new-address-error", "NewAddress: %v", err)
		return err
	}
	if mustRefuse && !mayIssue {
		w.Violate(class+".gap-not-enforced", "wallet %s: address index %d issued although none of the last %d addresses has chain history", ws.ID, n, gap)
	}
	if len(ws.Issued) != before+1 {
		return nil
	}
	ia := ws.Issued[before]
	for _, old := range ws.Issued[:before] {
		if old.Addr == addr {
			w.Violate(class+".address-reissued", "wallet %s: NewAddress returned %s again (index %d and %d)", ws.ID, addr, old.Index, ia.Index)
		}
	}
	h := ws.HD.Addr(ia.Index)
	var hh [32]byte
	copy(hh[:], h.ScriptHash)
	want := w.Gen.addrString(hh)
	if staking {
		a, _ := massutil.NewAddressStakingScriptHash(hh[:], w.Params)
		want = a.EncodeAddress()
	}
	if addr != want {
		w.Violate(class+".address-derivation", "wallet %s: address #%d is %s, the key chain gives %s at index %d", ws.ID, before, addr, want, ia.Index)
	}
	w.Stat("check.new_address")
	return nil
}

// CheckAddresses checks listing and used flags of issued addresses.
//
//go:norace
func (w *World) CheckAddresses(inst *Instance, ws *WalletState, l *Ledger, class string) {
	if _, err := inst.Use(ws.ID, true); err != nil {
		return
	}
	var std, stk []*txmgr.AddressDetail
	var e1, e2 error
	if !inst.RunCall("GetAddresses", true, func() {
		std, e1 = inst.WM.GetAddresses(massutil.AddressClassWitnessV0)
		stk, e2 = inst.WM.GetAddresses(massutil.AddressClassWitnessStaking)
	}) {
		return
	}
	if e1 != nil || e2 != nil {
		w.Violate(class+".addresses-error", "GetAddresses: %v %v", e1, e2)
		return
	}
	find := func(list []*txmgr.AddressDetail, a string) *txmgr.AddressDetail {
		for _, d := range list {
			if d.Address == a {
				return d
			}
		}
		return nil
	}
	// payments by class on the best chain
	paidStd, paidStk := map[[32]byte]bool{}, map[[32]byte]bool{}
	for _, b := range w.Node.BestChain()[1:] {
		for _, tx := range b.Msg.Transactions {
			for _, out := range tx.TxOut {
				cls, holder, _, _, ok := classify(out.PkScript)
				if !ok {
					continue
				}
				if cls == ClassStaking {
					paidStk[holder] = true
				} else {
					paidStd[holder] = true
				}
			}
		}
	}
	for _, ia := range ws.Issued {
		if ia.FromImport {
			continue
		}
		a := ws.HD.Addr(ia.Index)
		var h [32]byte
		copy(h[:], a.ScriptHash)
		list := std
		if ia.Staking {
			list = stk
		}
		d := find(list, ia.Addr)
		if d == nil {
			// diagnosis for the findings file: did a block that is no longer
			// on the best chain pay this address?
			rolled := false
			w.Node.mu.Lock()
			for _, b := range w.Node.all {
				if b.Height < uint64(len(w.Node.best)) && w.Node.best[b.Height] == b {
					continue
				}
				if b.paid[h] > 0 {
					rolled = true
				}
			}
			w.Node.mu.Unlock()
			sameClass := paidStd[h]
			if ia.Staking {
				sameClass = paidStk[h]
			}
			w.Violate(class+".address-not-listed", "wallet %s: issued address %s (index %d, staking=%v) is not listed; paid-in-a-rolled-back-block=%v paid-on-best-chain-in-its-class=%v",
				ws.ID, ia.Addr, ia.Index, ia.Staking, rolled, sameClass)
			return
		}
		sameClassPaid := paidStd[h]
		if ia.Staking {
			sameClassPaid = paidStk[h]
		}
		anyPaid := paidStd[h] || paidStk[h]
		switch {
		case sameClassPaid && !d.Used:
			w.Violate(class+".used-flag", "wallet %s: address %s has a payment on the best chain but is listed unused", ws.ID, ia.Addr)
			return
		case !anyPaid && d.Used:
			w.Violate(class+".used-flag", "wallet %s: address %s has no payment on the best chain but is listed used", ws.ID, ia.Addr)
			return
		}
		if anyPaid {
			w.Stat("probe.address_used")
		}
	}
	w.Stat("check.addresses")
}

// ---------------- C09: pending transactions ----------------

// PendingSet returns the candidate transactions the wallet currently holds
// as pending (candidates: every transaction the harness ever produced that is
// not on the best chain).
//
//go:norace
func (w *World) PendingSet(inst *Instance) (map[wire.Hash]*wire.MsgTx, bool) {
	out := map[wire.Hash]*wire.MsgTx{}
	var cands []wire.Hash
	w.Node.mu.Lock()
	for h := range w.Node.allTx {
		if _, on := w.Node.txIdx[h]; !on {
			cands = append(cands, h)
		}
	}
	w.Node.mu.Unlock()
	sort.Slice(cands, func(i, j int) bool { return cands[i].String() < cands[j].String() })
	ok := inst.RunCall("PendingDump", true, func() {
		for _, h := range cands {
			hh := h
			tx, err := inst.WM.SimUnminedTx(&hh)
			if err == nil && tx != nil {
				out[h] = tx
			} else if err != nil && err != txmgr.ErrNotFound {
				w.Violate("C09.pending-unreadable", "pending transaction %s cannot be read back: %v", h, err)
			}
		}
	})
	return out, ok
}

// CheckPending evaluates the pending-set invariants for one wallet.
//
//go:norace
func (w *World) CheckPending(inst *Instance, ws *WalletState, l *Ledger, pend map[wire.Hash]*wire.MsgTx, class string) {
	// spent-by-pending flags
	if _, err := inst.Use(ws.ID, true); err != nil {
		return
	}
	var ux map[string][]*masswallet.UnspentDetail
	var err error
	if !inst.RunCall("GetUtxo", true, func() { ux, err = inst.WM.GetUtxo(nil) }) || err != nil {
		return
	}
	spentBy := map[wire.OutPoint]wire.Hash{}
	for h, tx := range pend {
		if tx.TxHash() != h {
			w.Violate(class+".pending-unreadable", "pending transaction %s reads back as %s", h, tx.TxHash())
			return
		}
		for _, in := range tx.TxIn {
			spentBy[in.PreviousOutPoint] = h
		}
	}
	for _, list := range ux {
		for _, u := range list {
			hh, herr := wire.NewHashFromStr(u.TxId)
			if herr != nil {
				continue
			}
			op := wire.OutPoint{Hash: *hh, Index: u.Vout}
			_, isSpent := spentBy[op]
			if isSpent {
				w.Stat("probe.coin_spent_by_pending")
			}
			if isSpent != u.SpentByUnmined {
				w.Violate(class+".spent-by-unconfirmed-flag", "wallet %s: coin %v is spent by pending transaction=%v (%s) but reported spent_by_unmined=%v",
					ws.ID, op, isSpent, spentBy[op], u.SpentByUnmined)
				return
			}
		}
	}
	w.Stat("check.pending_flags")
}

// CheckPendingGlobal evaluates the instance-wide pending invariants.
//
//go:norace
func (w *World) CheckPendingGlobal(inst *Instance, pend map[wire.Hash]*wire.MsgTx, expect map[wire.Hash]string, class string) {
	// wallet-owned holder hashes of ready wallets
	own := map[[32]byte]bool{}
	for _, id := range inst.SortedWalletIDs() {
		ws := inst.Wallets[id]
		if ws.Removing || ws.Uncertain {
			continue
		}
		if w.WalletsComeAndGo && ws.Imported {
			// a wallet that was removed and imported again: what was pending
			// on its coins went with the removal, and which pending
			// transactions of other wallets touch its coins is nobody's record
			// ("conflicts on inputs that do not belong to the wallet" at the
			// time are not required to be noticed)
			continue
		}
		for _, ia := range ws.Issued {
			var h [32]byte
			copy(h[:], ws.HD.Addr(ia.Index).ScriptHash)
			own[h] = true
		}
	}
	// inputs spent on the best chain
	spentOnChain := map[wire.OutPoint]wire.Hash{}
	for _, b := range w.Node.BestChain()[1:] {
		for _, tx := range b.Msg.Transactions {
			if tx.IsCoinBaseTx() {
				continue
			}
			th := tx.TxHash()
			for _, in := range tx.TxIn {
				spentOnChain[in.PreviousOutPoint] = th
			}
		}
	}
	ownedInput := func(op wire.OutPoint) bool {
		prev := w.Node.LookupTx(op.Hash)
		if prev == nil || int(op.Index) >= len(prev.TxOut) {
			return false
		}
		_, holder, _, _, ok := classify(prev.TxOut[op.Index].PkScript)
		return ok && own[holder]
	}
	for h, tx := range pend {
		if _, on := w.Node.OnBestChain(h); on {
			w.Violate(class+".confirmed-still-pending", "transaction %s is on the best chain and still in the pending set", h)
			return
		}
		for _, in := range tx.TxIn {
			if by, ok := spentOnChain[in.PreviousOutPoint]; ok && ownedInput(in.PreviousOutPoint) {
				w.Violate(class+".conflicted-still-pending", "pending transaction %s spends wallet coin %v which the confirmed transaction %s spends", h, in.PreviousOutPoint, by)
				return
			}
		}
	}
	// descendants of vanished conflicts must be gone too: a pending tx whose
	// unconfirmed parent is neither pending nor confirmed has lost its parent.
	// (Only where the set of wallets is fixed: in histories that remove and
	// re-import wallets "a coin of the wallet" has no fixed meaning over time -
	// the parent may have gone with the removed wallet, not with the conflict.)
	for h, tx := range pend {
		if w.WalletsComeAndGo && os.Getenv("VERIF_STRICT_ORPHANS") == "" {
			break
		}
		for _, in := range tx.TxIn {
			ph := in.PreviousOutPoint.Hash
			if _, on := w.Node.OnBestChain(ph); on {
				continue
			}
			if _, isPend := pend[ph]; isPend {
				continue
			}
			// the statement covers descendants of a transaction that lost
			// against a confirmed conflict (on a wallet coin); a parent that
			// merely disappeared with its block is outside it
			parent := w.Node.LookupTx(ph)
			if parent == nil || !ownedParentOutput(w, own, in.PreviousOutPoint) {
				continue
			}
			for _, pin := range parent.TxIn {
				if by, ok := spentOnChain[pin.PreviousOutPoint]; ok && by != ph && ownedInput(pin.PreviousOutPoint) {
					w.Violate(class+".orphan-pending", "pending transaction %s spends output %v of transaction %s, which lost against the confirmed conflicting transaction %s and is gone", h, in.PreviousOutPoint, ph, by)
					return
				}
			}
		}
	}
	for h, why := range expect {
		if _, ok := pend[h]; !ok {
			if tx := w.Node.LookupTx(h); tx != nil && strings.HasPrefix(why, "announced again") {
				if rival, loser, found := lostToBlockRival(w, tx); found {
					w.Violate(class+".readmitted-transaction-ignored", "%s", readmittedDetail(h, loser, rival))
					return
				}
			}
			w.Violate(class+".pending-missing", "transaction %s must be in the pending set (%s) but is not", h, why)
			return
		}
	}
	w.Stat("check.pending_global")
	if len(pend) > 0 {
		w.Stat("check.pending_global.nonempty")
	}
}

//go:norace
func ownedParentOutput(w *World, own map[[32]byte]bool, op wire.OutPoint) bool {
	prev := w.Node.LookupTx(op.Hash)
	if prev == nil || int(op.Index) >= len(prev.TxOut) {
		return false
	}
	_, holder, _, _, ok := classify(prev.TxOut[op.Index].PkScript)
	return ok && own[holder]
}

// ---------------- shared runner ----------------

//go:norace
func runFamily(w *World, p map[string]int, prop string) {
	t := w.Plan
	k := drawKnobs(w)
	if prop == "C12" {
		k.GapLimit = uint32(2 + t.Int(6))
	}
	if prop == "C10" {
		k.WarmUpHeight = uint64(3 + t.Int(10))
	}
	w.SetKnobs(k)
	switch prop {
	case "C10":
		w.Gen.TxKindW = []int{6, 6, 6, 5, 5, 1}
	case "C09":
		w.Gen.TxKindW = []int{10, 3, 3, 3, 3, 2}
	}
	inst := w.NewInstance("A")
	if err := inst.Open(); err != nil {
		w.Violate(prop+".harness", "%v", err)
		return
	}
	nW := 1 + t.Weighted([]int{6, 3})
	if err := setupWallets(w, inst, nW); err != nil {
		w.Violate(prop+".setup", "%v", err)
		return
	}
	if err := inst.StartSolo(); err != nil {
		w.Violate(prop+".start", "Start: %v", err)
		return
	}
	expect := map[wire.Hash]string{} // transactions that must be pending (C09, structured scenarios)
	// prune ends expectations: when the transaction confirms, when a best-chain
	// transaction spends one of its inputs, when a parent is neither confirmed
	// nor expected. It runs after every operation - a conflict that was on the
	// best chain at any moment may or may not have reached the wallet (a tip
	// that is stale when handled is skipped), so from then on the outcome is open
	// even if a later reorganisation removes the conflict again.
	prune := func() {
		if len(expect) == 0 {
			return
		}
		spent := map[wire.OutPoint]bool{}
		for _, b := range w.Node.BestChain()[1:] {
			for _, tx := range b.Msg.Transactions {
				for _, in := range tx.TxIn {
					spent[in.PreviousOutPoint] = true
				}
			}
		}
		for changed := true; changed; {
			changed = false
			var hs []wire.Hash
			for h := range expect {
				hs = append(hs, h)
			}
			sort.Slice(hs, func(i, j int) bool { return hs[i].String() < hs[j].String() })
			for _, h := range hs {
				tx := w.Node.LookupTx(h)
				drop := false
				if _, on := w.Node.OnBestChain(h); on || tx == nil {
					drop = true
				} else {
					for _, in := range tx.TxIn {
						if spent[in.PreviousOutPoint] {
							drop = true
							break
						}
						if _, on := w.Node.OnBestChain(in.PreviousOutPoint.Hash); !on {
							if _, exp := expect[in.PreviousOutPoint.Hash]; !exp {
								drop = true
								break
							}
						}
					}
				}
				if drop {
					delete(expect, h)
					changed = true
				}
			}
		}
	}
	check := func() bool {
		if _, ok := w.S.Quiesce(20000); !ok {
			w.Violate(prop+".liveness", "not quiescent: %v", w.S.ParkedSummary())
			return false
		}
		if len(w.S.FatalExits) > 0 {
			w.Violate(prop+".follower-died", "%s", firstLines(w.S.FatalExits[0], 40))
			return false
		}
		if len(w.S.Panics) > 0 {
			w.Violate(prop+".panic", "%s", firstLines(w.S.Panics[0], 40))
			return false
		}
		if !w.AllDelivered() {
			return true
		}
		var pend map[wire.Hash]*wire.MsgTx
		if prop == "C09" {
			var ok bool
			if pend, ok = w.PendingSet(inst); !ok {
				return false
			}
			prune()
			// (kept for the reader: the same pruning ran after every operation)
			spent := map[wire.OutPoint]bool{}
			for _, b := range w.Node.BestChain()[1:] {
				for _, tx := range b.Msg.Transactions {
					for _, in := range tx.TxIn {
						spent[in.PreviousOutPoint] = true
					}
				}
			}
			// fixpoint in a canonical order (no dependence on map iteration)
			for changed := true; changed; {
				changed = false
				var hs []wire.Hash
				for h := range expect {
					hs = append(hs, h)
				}
				sort.Slice(hs, func(i, j int) bool { return hs[i].String() < hs[j].String() })
				for _, h := range hs {
					tx := w.Node.LookupTx(h)
					drop := false
					if _, on := w.Node.OnBestChain(h); on || tx == nil {
						drop = true
					} else {
						for _, in := range tx.TxIn {
							if spent[in.PreviousOutPoint] {
								drop = true
								break
							}
							// a parent that is neither confirmed nor expected makes the outcome unknown
							if _, on := w.Node.OnBestChain(in.PreviousOutPoint.Hash); !on {
								if _, exp := expect[in.PreviousOutPoint.Hash]; !exp {
									drop = true
									break
								}
							}
						}
					}
					if drop {
						delete(expect, h)
						changed = true
					}
				}
			}
			w.CheckPendingGlobal(inst, pend, expect, prop)
		}
		for _, id := range inst.SortedWalletIDs() {
			ws := inst.Wallets[id]
			l := w.CheckWallet(inst, ws, prop)
			if l == nil || len(w.Violations) > 0 {
				return false
			}
			switch prop {
			case "C09":
				w.CheckPending(inst, ws, l, pend, prop)
			case "C10":
				w.CheckGames(inst, ws, l, prop)
				if len(w.Violations) == 0 {
					w.CheckWithdrawSequences(inst, ws, l, prop)
				}
			case "C12":
				w.CheckAddresses(inst, ws, l, prop)
			}
		}
		return len(w.Violations) == 0
	}
	nOps := 4 + t.Int(param(p, "ops", 40))
	for i := 0; i < nOps && len(w.Violations) == 0; i++ {
		weights := []int{10, 3, 3, 2, 2, 6, 1}
		switch prop {
		case "C09":
			weights = []int{8, 3, 3, 1, 8, 6, 1}
		case "C12":
			weights = []int{8, 3, 2, 8, 1, 5, 2}
		}
		switch t.Weighted(weights) {
		case 6:
			// the node is restarted: pending transactions, deposits and issued
			// addresses live in the store and must come back; the chain moves
			// while the wallet is down and while it starts
			restartMoving(w, inst, prop)
		case 0:
			w.MineOnTip(t, 60)
		case 1:
			w.Fork(t, 1+t.Int(param(p, "maxdepth", 5)), 1+t.Int(2), 50, 3)
		case 2:
			w.runSteps(1 + t.Int(12))
		case 3:
			ids := inst.SortedWalletIDs()
			ws := inst.Wallets[ids[t.Int(len(ids))]]
			w.IssueAddress(inst, ws, t.Bool(25), prop == "C12" || t.Bool(50), prop)
		case 4:
			// announce an unconfirmed transaction; when the wallet is idle and
			// in sync the outcome is known exactly
			if prop == "C09" && t.Bool(20) {
				// a transaction announced before is announced again
				if !check() {
					break
				}
				if tx, free := w.AnnounceAgain(t); tx != nil {
					if _, ok := w.S.Quiesce(20000); ok && free && relevantToWallets(w, inst, tx) {
						if _, had := expect[tx.TxHash()]; !had {
							w.Stat("probe.pending_expected_after_second_announcement")
						}
						expect[tx.TxHash()] = "announced again while the wallet was idle and in sync, all parents confirmed, no rival"
					}
				}
			} else if prop == "C09" && t.Bool(60) {
				if !check() {
					break
				}
				if tx := w.AnnounceLoose(t); tx != nil {
					// the wallet accepts an unconfirmed transaction only when it can
					// find every parent (on the chain or in its own pending set) at
					// that moment: a parent that is unconfirmed and unknown to the
					// wallet now makes the outcome open, even if it confirms later
					parentsKnown := true
					for _, in := range tx.TxIn {
						if _, on := w.Node.OnBestChain(in.PreviousOutPoint.Hash); !on {
							if _, exp := expect[in.PreviousOutPoint.Hash]; !exp {
								parentsKnown = false
							}
						}
					}
					if _, ok := w.S.Quiesce(20000); ok && parentsKnown && relevantToWallets(w, inst, tx) {
						expect[tx.TxHash()] = "announced while the wallet was idle and in sync"
						w.Stat("probe.pending_expected")
					}
				}
			} else {
				w.AnnounceLoose(t)
			}
		case 5:
			check()
			w.Stat("check.midrun")
		}
		prune()
		w.runSteps(t.Int(4))
		if len(w.S.FatalExits) > 0 || len(w.S.Panics) > 0 {
			break
		}
	}
	if len(w.Violations) == 0 {
		// C10: step through heights one at a time so that every lock boundary
		// is observed at h-1, h, h+1
		if prop == "C10" {
			for i := 0; i < 6 && len(w.Violations) == 0; i++ {
				w.MineOnTip(t, 60)
				check()
			}
		}
		check()
	}
	if prop == "C12" && len(w.Violations) == 0 {
		checkRestore(w, inst, t, prop)
	}
	if prop == "C09" && len(w.Violations) == 0 && !inst.Dead && !w.S.CrashRequested && t.Bool(param(p, "readmitpct", 30)) {
		readmitAfterEviction(w, inst, prop)
	}
	w.Sample = fmt.Sprintf("%s wallets=%d ops=%d height=%d forks=%d unconfirmed=%d addresses=%d knobs={mat:%d frozen:%d warmup:%d bindlock:%d gap:%d}", prop, nW, nOps,
		w.Node.Tip().Height, w.Stats["op.fork"], w.Stats["op.unconfirmed"], w.Stats["check.new_address"],
		consensus.CoinbaseMaturity, consensus.MinFrozenPeriod, consensus.MASSIP0002WarmUpHeight, consensus.MASSIP0002BindingLockedPeriod, w.Knobs.GapLimit)
}

// relevantToWallets reports whether tx pays or spends an address of a ready
// harness-known wallet.
//
//go:norace
func relevantToWallets(w *World, inst *Instance, tx *wire.MsgTx) bool {
	own := map[[32]byte]bool{}
	for _, id := range inst.SortedWalletIDs() {
		ws := inst.Wallets[id]
		for _, ia := range ws.Issued {
			var h [32]byte
			copy(h[:], ws.HD.Addr(ia.Index).ScriptHash)
			own[h] = true
		}
	}
	for _, out := range tx.TxOut {
		if _, holder, _, _, ok := classify(out.PkScript); ok && own[holder] {
			return true
		}
	}
	for _, in := range tx.TxIn {
		if ownedParentOutput(w, own, in.PreviousOutPoint) {
			return true
		}
	}
	return false
}

// checkRestore (C12): a mnemonic restore on a fresh instance, with index hint
// 0, must find every address that ever received funds.
//
//go:norace
func checkRestore(w *World, src *Instance, t *Tape, class string) {
	ids := src.SortedWalletIDs()
	ws := src.Wallets[ids[t.Int(len(ids))]]
	b := w.NewInstance("B")
	if err := b.Open(); err != nil {
		w.Violate(class+".harness", "%v", err)
		return
	}
	if err := b.StartSolo(); err != nil {
		w.Violate(class+".start", "Start(B): %v", err)
		return
	}
	hint := uint32(0)
	if t.Bool(30) {
		hint = uint32(t.Int(len(ws.Issued) + 1))
	}
	nw, err := b.ImportMnemonic(ws, hint, true)
	if err != nil {
		w.Violate(class+".restore-failed", "ImportWalletWithMnemonic: %v", err)
		return
	}
	if _, ok := w.S.Quiesce(50000); !ok {
		w.Violate(class+".liveness", "restore did not finish: %v", w.S.ParkedSummary())
		return
	}
	ls, err := b.ListWallets()
	if err != nil || len(ls) != 1 || !ls[0].Ready {
		w.Violate(class+".restore-unfinished", "after the restore the wallet list is %+v (%v)", ls, err)
		return
	}
	got, err := b.Observe(nw.ID)
	if err != nil {
		w.Violate(class+".observe-error", "%v", err)
		return
	}
	have := map[[32]byte]bool{}
	for _, ab := range got.AddrBal {
		if h, ok := w.decodeStd(ab.Addr); ok {
			have[h] = true
		}
	}
	// Every issued address that has a payment on the best chain must be
	// found. When forks removed payments during the run, the premise of the
	// guarantee (the address that justified an issue still has history) may no
	// longer hold on the best chain; then only the addresses the documented
	// scan (continue until gap-limit consecutive unused addresses past the
	// last used one or the hint) reaches are demanded.
	usedAt := func(i uint32) bool {
		a := ws.HD.Addr(i)
		u, _ := w.Node.CheckScriptHashUsed(a.ScriptHash)
		return u
	}
	gap := b.Cfg.Wallet.Settings.AddressGapLimit
	reach := uint32(0)
	{
		next := uint32(0)
		h0 := hint
		if h0 == 0 {
			h0 = 1
		}
		for i := uint32(0); i < next+gap || i < h0+gap; i++ {
			if usedAt(i) {
				next = i + 1
			}
			reach = i + 1
		}
	}
	strict := w.Stats["op.fork"] == 0
	for _, ia := range ws.Issued {
		var h [32]byte
		copy(h[:], ws.HD.Addr(ia.Index).ScriptHash)
		used, _ := w.Node.CheckScriptHashUsed(h[:])
		if !strict && ia.Index >= reach {
			continue
		}
		if used && !have[h] {
			w.Violate(class+".restore-missed-address", "restore with hint %d did not find address index %d (%s) which has chain history; gap limit %d, issued %d",
				hint, ia.Index, ia.Addr, b.Cfg.Wallet.Settings.AddressGapLimit, len(ws.Issued))
			return
		}
		if used {
			w.Stat("probe.restore_found_used_address")
		}
	}
	w.Stat("check.restore")
}

// lostToBlockRival reports whether tx, or an ancestor of it up to three
// generations back, has an input that another transaction contained in a block
// which is NOT on the best chain now spends too. A wallet that handled that
// block while the ancestor was pending evicted the ancestor and its descendants
// from the pending set (correctly); after the reorganisation that dropped the
// block they are valid again.
//
//go:norace
func lostToBlockRival(w *World, tx *wire.MsgTx) (rival, loser wire.Hash, found bool) {
	type sp struct {
		tx  wire.Hash
		blk wire.Hash
	}
	spenders := map[wire.OutPoint][]sp{}
	w.Node.mu.Lock()
	onBest := map[wire.Hash]bool{}
	for _, b := range w.Node.best {
		onBest[b.Hash] = true
	}
	var stale []*BlockRec
	for _, b := range w.Node.all {
		if !onBest[b.Hash] {
			stale = append(stale, b)
		}
	}
	w.Node.mu.Unlock()
	sort.Slice(stale, func(i, j int) bool { return stale[i].Hash.String() < stale[j].Hash.String() })
	for _, b := range stale {
		for _, m := range b.Msg.Transactions[1:] {
			for _, in := range m.TxIn {
				spenders[in.PreviousOutPoint] = append(spenders[in.PreviousOutPoint], sp{m.TxHash(), b.Hash})
			}
		}
	}
	gen := []*wire.MsgTx{tx}
	for depth := 0; depth <= 3 && len(gen) > 0; depth++ {
		var next []*wire.MsgTx
		for _, m := range gen {
			mh := m.TxHash()
			for _, in := range m.TxIn {
				for _, s := range spenders[in.PreviousOutPoint] {
					if s.tx != mh {
						return s.tx, mh, true
					}
				}
				if prev := w.Node.LookupTx(in.PreviousOutPoint.Hash); prev != nil && !prev.IsCoinBaseTx() {
					next = append(next, prev)
				}
			}
		}
		gen = next
	}
	return rival, loser, false
}

//go:norace
func readmittedDetail(h, loser, rival wire.Hash) string {
	return fmt.Sprintf("transaction %s, announced again with all parents confirmed and no rival, is not in the pending set: it (or its ancestor %s) lost to %s in a block that was reorganised away later, and the handler's in-memory set of known hashes still holds it", h, loser, rival)
}

// readmitAfterEviction: a pending parent P (pays the wallet) and its pending
// child C (spends that wallet coin) lose to a rival R of P that confirms in a
// block; a depth-1 reorganisation then confirms P instead of R. C is valid
// again (parent confirmed, no rival) and the node announces it again: it must
// be pending again and the coin it spends flagged.
//
//go:norace
func readmitAfterEviction(w *World, inst *Instance, class string) {
	t := w.Plan
	if _, ok := w.S.Quiesce(20000); !ok || !w.AllDelivered() {
		return
	}
	var cands []*WalletState
	for _, id := range inst.SortedWalletIDs() {
		ws := inst.Wallets[id]
		if ws.HD != nil && !ws.Removing && !ws.Uncertain && len(ws.Issued) > 0 {
			cands = append(cands, ws)
		}
	}
	if len(cands) == 0 {
		return
	}
	ws := cands[t.Int(len(cands))]
	var hk [32]byte
	copy(hk[:], ws.HD.Addr(ws.Issued[t.Int(len(ws.Issued))].Index).ScriptHash)
	tip := w.Node.Tip()
	var src *genCoin
	inPool := map[wire.OutPoint]bool{}
	for _, m := range w.Gen.pendingMempool() {
		for _, in := range m.TxIn {
			inPool[in.PreviousOutPoint] = true
		}
	}
	// a spendable coin of this wallet (the wallet tracks conflicts on its own coins)
	w.Gen.AddWalletParty(ws)
	for _, c := range sortedCoins(w.Gen.utxoAt(tip)) {
		if c.owner >= 2 && w.Gen.Parties[c.owner].Wallet == ws && c.cls == ClassStd && c.value > 5000000 && !inPool[c.op] && tip.Height+1 >= c.height && tip.Height+1-c.height >= c.lock() {
			src = c
			break
		}
	}
	if src == nil {
		return
	}
	amt := int64(2000000 + t.Int(1000))
	nobody := func() [32]byte { h, _ := w.Gen.pickPayee(t, 0); return h }
	P := wire.NewMsgTx()
	P.AddTxIn(wire.NewTxIn(&src.op, dummyWitness()))
	P.AddTxOut(wire.NewTxOut(amt, stdScript(hk)))
	P.AddTxOut(wire.NewTxOut(src.value-amt-100000, stdScript(nobody())))
	C := wire.NewMsgTx()
	C.AddTxIn(wire.NewTxIn(&wire.OutPoint{Hash: P.TxHash(), Index: 0}, dummyWitness()))
	C.AddTxOut(wire.NewTxOut(amt-100000, stdScript(nobody())))
	R := wire.NewMsgTx()
	R.AddTxIn(wire.NewTxIn(&src.op, dummyWitness()))
	R.AddTxOut(wire.NewTxOut(src.value-200000, stdScript(nobody())))
	for _, m := range []*wire.MsgTx{P, C} {
		w.AnnounceTx(m)
		w.Logf("announce unconfirmed %s", describeTx(m))
	}
	if _, ok := w.S.Quiesce(20000); !ok || !w.AllDelivered() {
		return
	}
	pend, ok := w.PendingSet(inst)
	if !ok {
		return
	}
	if _, in := pend[C.TxHash()]; !in {
		return // not accepted in the first place (nothing to readmit)
	}
	// R confirms: P and C are evicted
	b := w.Gen.NewBlock(t, tip, []*wire.MsgTx{R})
	w.Node.Attach(b)
	w.SyncTips()
	w.Announce(b)
	w.logBlock("rival-confirms", b)
	if _, ok := w.S.Quiesce(20000); !ok || !w.AllDelivered() {
		return
	}
	if pend, ok = w.PendingSet(inst); !ok {
		return
	}
	if _, in := pend[C.TxHash()]; in {
		w.Violate(class+".conflicted-still-pending", "transaction %s, child of %s which lost to the confirmed %s, is still pending", C.TxHash(), P.TxHash(), R.TxHash())
		return
	}
	// the block with R is reorganised away; P confirms on the new branch
	w.Node.DeleteTip()
	w.SyncTips()
	b1 := w.Gen.NewBlock(t, tip, []*wire.MsgTx{P})
	b2 := w.Gen.NewBlock(t, b1, nil)
	for _, nb := range []*BlockRec{b1, b2} {
		w.Node.Attach(nb)
		w.SyncTips()
	}
	w.Announce(b2)
	w.logBlock("parent-confirms-instead", b1)
	if _, ok := w.S.Quiesce(20000); !ok || !w.AllDelivered() {
		return
	}
	w.AnnounceTx(C)
	w.Logf("announce again %s", describeTx(C))
	if _, ok := w.S.Quiesce(20000); !ok || !w.AllDelivered() {
		return
	}
	if pend, ok = w.PendingSet(inst); !ok {
		return
	}
	w.Stat("probe.evicted_transaction_announced_again_after_reorg")
	if _, in := pend[C.TxHash()]; !in {
		w.Violate(class+".readmitted-transaction-ignored", "%s", readmittedDetail(C.TxHash(), P.TxHash(), R.TxHash()))
	}
}
