package sim

// C11: the real ldb wallet database on a simulated disk against an in-memory
// reference model (ShardStore style). Every operation is drawn from the plan
// tape; the model is a set of bucket paths and a key/value map per bucket; a
// write transaction works on a copy that replaces the committed state at
// commit. Crash/reopen uses SimDisk crash images (torn in-flight write).

import (
	"bytes"
	"errors"
	"fmt"
	"hash/fnv"
	"sort"
	"strings"

	mwdb "massnet.org/mass-wallet/masswallet/db"
	"massnet.org/mass-wallet/masswallet/db/ldb"
)

//go:norace
func init() { Runners["C11"] = runC11 }

type dbModel struct {
	buckets map[string]bool              // "a", "a/b", "a/b/c"
	kv      map[string]map[string]string // path -> key -> value
}

//go:norace
func newDBModel() *dbModel {
	return &dbModel{buckets: map[string]bool{}, kv: map[string]map[string]string{}}
}

//go:norace
func (m *dbModel) clone() *dbModel {
	c := newDBModel()
	for b := range m.buckets {
		c.buckets[b] = true
	}
	for p, kv := range m.kv {
		n := make(map[string]string, len(kv))
		for k, v := range kv {
			n[k] = v
		}
		c.kv[p] = n
	}
	return c
}

//go:norace
func (m *dbModel) deleteBucket(path string) {
	for b := range m.buckets {
		if b == path || strings.HasPrefix(b, path+"/") {
			delete(m.buckets, b)
			delete(m.kv, b)
		}
	}
}

//go:norace
func (m *dbModel) children(path string) []string {
	var out []string
	for b := range m.buckets {
		if path == "" {
			if !strings.Contains(b, "/") {
				out = append(out, b)
			}
		} else if strings.HasPrefix(b, path+"/") && !strings.Contains(b[len(path)+1:], "/") {
			out = append(out, b[len(path)+1:])
		}
	}
	sort.Strings(out)
	return out
}

//go:norace
func (m *dbModel) sortedPaths() []string {
	var out []string
	for b := range m.buckets {
		out = append(out, b)
	}
	sort.Strings(out)
	return out
}

var c11Names = []string{"a", "b", "1", "2", "x1", "bb"}
var c11KeyParts = []string{"a", "_", "1", "2", "b", "\x00", "\xff", "k", "1_", "b_1_", "_a"}

//go:norace
func c11Key(t *Tape) []byte {
	n := t.Weighted([]int{1, 8, 6, 3})
	var sb strings.Builder
	for i := 0; i < n; i++ {
		sb.WriteString(c11KeyParts[t.Int(len(c11KeyParts))])
	}
	return []byte(sb.String())
}

type c11State struct {
	w     *World
	disk  *SimDisk
	db    mwdb.DB
	model *dbModel // committed
	ops   []string
	wbuf  int
	// bucket paths created or deleted by the current write transaction
	touched map[string]bool
	// keys ever used per bucket path: reads and deletes prefer them so that
	// delete/re-put/read orders on the same key are common
	pool map[string][]string
}

//go:norace
func (s *c11State) poolKey(t *Tape, path string) []byte {
	if p := s.pool[path]; len(p) > 0 && t.Bool(80) {
		return []byte(p[t.Int(len(p))])
	}
	k := c11Key(t)
	if len(k) > 0 && len(s.pool[path]) < 12 {
		s.pool[path] = append(s.pool[path], string(k))
	}
	return k
}

//go:norace
func (s *c11State) logf(format string, a ...interface{}) {
	if len(s.ops) < 400 {
		s.ops = append(s.ops, fmt.Sprintf(format, a...))
	}
}

//go:norace
func (s *c11State) fail(class, format string, a ...interface{}) {
	tail := s.ops
	if len(tail) > 25 {
		tail = tail[len(tail)-25:]
	}
	s.w.Violate("C11."+class, "%s | last ops: %s", fmt.Sprintf(format, a...), strings.Join(tail, "; "))
}

// openBucket walks a model path in tx.
//
//go:norace
func openBucket(tx interface {
	TopLevelBucket(string) mwdb.Bucket
}, path string) mwdb.Bucket {
	parts := strings.Split(path, "/")
	b := tx.TopLevelBucket(parts[0])
	for _, p := range parts[1:] {
		if b == nil {
			return nil
		}
		b = b.Bucket(p)
	}
	return b
}

type kvPair struct{ k, v string }

//go:norace
func renderPairs(ps []kvPair) []string {
	sort.Slice(ps, func(i, j int) bool { return ps[i].k < ps[j].k })
	out := make([]string, len(ps))
	for i, p := range ps {
		out[i] = fmt.Sprintf("%q=%q", p.k, p.v)
	}
	return out
}

//go:norace
func sortedEntries(es []*mwdb.Entry) []string {
	var ps []kvPair
	for _, e := range es {
		ps = append(ps, kvPair{string(e.Key), string(e.Value)})
	}
	return renderPairs(ps)
}

//go:norace
func modelEntries(kv map[string]string, prefix []byte) []string {
	var ps []kvPair
	for k, v := range kv {
		if bytes.HasPrefix([]byte(k), prefix) {
			ps = append(ps, kvPair{k, v})
		}
	}
	return renderPairs(ps)
}

// checkRead compares a full read-only view of the database with model m.
//
//go:norace
func (s *c11State) checkRead(m *dbModel, what string) bool {
	ok := true
	err := mwdb.View(s.db, func(tx mwdb.ReadTransaction) error {
		ok = s.checkReadIn(tx, m, what)
		return nil
	})
	if err != nil {
		s.fail("read-error", "%s: View: %v", what, err)
		return false
	}
	return ok
}

// checkReadIn compares everything readable through tx with model m.
//
//go:norace
func (s *c11State) checkReadIn(tx mwdb.ReadTransaction, m *dbModel, what string) bool {
	ok := true
	err := func() error {
		names, err := tx.BucketNames()
		if err != nil {
			s.fail("read-error", "%s: BucketNames: %v", what, err)
			ok = false
			return nil
		}
		sort.Strings(names)
		if strings.Join(names, ",") != strings.Join(m.children(""), ",") {
			s.fail("bucket-listing", "%s: top-level buckets %q, model %q", what, names, m.children(""))
			ok = false
			return nil
		}
		for _, path := range m.sortedPaths() {
			b := openBucket(tx, path)
			if b == nil {
				s.fail("bucket-missing", "%s: committed bucket %q not found", what, path)
				ok = false
				return nil
			}
			subs, err := b.BucketNames()
			if err != nil {
				s.fail("read-error", "%s: BucketNames(%s): %v", what, path, err)
				ok = false
				return nil
			}
			sort.Strings(subs)
			if strings.Join(subs, ",") != strings.Join(m.children(path), ",") {
				s.fail("bucket-listing", "%s: sub-buckets of %q are %q, model %q", what, path, subs, m.children(path))
				ok = false
				return nil
			}
			es, err := b.GetByPrefix(nil)
			if err != nil {
				s.fail("read-error", "%s: GetByPrefix(%s): %v", what, path, err)
				ok = false
				return nil
			}
			got, want := sortedEntries(es), modelEntries(m.kv[path], nil)
			if strings.Join(got, "|") != strings.Join(want, "|") {
				s.fail("content", "%s: bucket %q holds %q, model %q", what, path, got, want)
				ok = false
				return nil
			}
			// point reads: every committed key reads back its value, keys this
			// bucket once held and no longer holds read as absent
			var ks []string
			for k := range m.kv[path] {
				ks = append(ks, k)
			}
			sort.Strings(ks)
			for _, k := range ks {
				v, gerr := b.Get([]byte(k))
				if gerr != nil || string(v) != m.kv[path][k] || (v == nil) {
					s.fail("content", "%s: Get(%q) in bucket %q returns %q (%v), model %q", what, k, path, v, gerr, m.kv[path][k])
					ok = false
					return nil
				}
			}
			for _, k := range s.pool[path] {
				if _, in := m.kv[path][k]; in {
					continue
				}
				if v, gerr := b.Get([]byte(k)); gerr != nil || v != nil {
					s.fail("content", "%s: Get(%q) in bucket %q returns %q (%v), the model has no such key", what, k, path, v, gerr)
					ok = false
					return nil
				}
			}
			// full iteration: every entry once, ascending
			it := b.NewIterator(nil)
			var keys []string
			for it.Next() {
				keys = append(keys, fmt.Sprintf("%q=%q", it.Key(), it.Value()))
			}
			it.Release()
			if err := it.Error(); err != nil {
				s.fail("read-error", "%s: iterator(%s): %v", what, path, err)
				ok = false
				return nil
			}
			if strings.Join(keys, "|") != strings.Join(want, "|") {
				s.fail("iteration", "%s: iterating bucket %q yields %q, want ascending %q", what, path, keys, want)
				ok = false
				return nil
			}
		}
		// buckets reached through their meta (how the wallet opens its buckets:
		// metas are taken once, FetchBucket is called in every transaction):
		// all of them in this one transaction, so that handles of different
		// buckets - also same-named ones under different parents - coexist
		type mb struct {
			path string
			meta mwdb.BucketMeta
		}
		var metas []mb
		for _, path := range m.sortedPaths() {
			if b := openBucket(tx, path); b != nil {
				metas = append(metas, mb{path, b.GetBucketMeta()})
			}
		}
		if len(metas) > 1 {
			// fetch in an order that differs from the walk
			for i := len(metas) - 1; i >= 0; i-- {
				b := tx.FetchBucket(metas[i].meta)
				if b == nil {
					s.fail("bucket-missing", "%s: FetchBucket(meta of %q) returns nil", what, metas[i].path)
					ok = false
					return nil
				}
				es, err := b.GetByPrefix(nil)
				if err != nil {
					s.fail("read-error", "%s: GetByPrefix via FetchBucket(%s): %v", what, metas[i].path, err)
					ok = false
					return nil
				}
				got, want := sortedEntries(es), modelEntries(m.kv[metas[i].path], nil)
				if strings.Join(got, "|") != strings.Join(want, "|") {
					s.fail("content", "%s: bucket %q fetched by its meta holds %q, model %q", what, metas[i].path, got, want)
					ok = false
					return nil
				}
			}
			s.w.Stat("check.fetch_by_meta")
		}
		return nil
	}()
	if err != nil {
		s.fail("read-error", "%s: %v", what, err)
		return false
	}
	return ok
}

//go:norace
func (s *c11State) open(create bool) error {
	db, err := ldb.OpenWithStorage(s.disk, create, s.wbuf, 0)
	if err != nil {
		return err
	}
	s.db = db
	return nil
}

//go:norace
func runC11(w *World, p map[string]int) {
	t := w.Plan
	s := &c11State{w: w, disk: NewSimDisk(), model: newDBModel(), wbuf: 4 << 20, pool: map[string][]string{}}
	if t.Bool(30) {
		s.wbuf = 2 << 10 // memtable flushes and compaction run
	}
	if err := s.open(true); err != nil {
		w.Violate("C11.harness", "open: %v", err)
		return
	}
	nTx := 2 + t.Int(param(p, "txs", 14))
	errAbort := errors.New("closure error")
	for i := 0; i < nTx && len(w.Violations) == 0; i++ {
		switch t.Weighted([]int{12, 2, 2, 2}) {
		case 1: // clean close / reopen
			s.db.Close()
			if err := s.open(false); err != nil {
				s.fail("reopen-failed", "reopen after clean close: %v", err)
				return
			}
			s.logf("reopen")
			w.Stat("op.reopen")
			s.checkRead(s.model, "after reopen")
			continue
		case 2: // range / prefix iteration and seek in a read-only transaction
			s.readOnlyProbe(t)
			continue
		case 3: // full comparison
			s.checkRead(s.model, "periodic")
			continue
		}
		// ---- a write transaction ----
		// sometimes a read transaction is opened first and kept open across
		// the write transaction: whatever happens meanwhile, it keeps showing
		// the state it was opened on
		var heldRead mwdb.ReadTransaction
		var heldModel *dbModel
		if t.Bool(15) {
			if rtx, e := s.db.BeginReadTx(); e == nil {
				heldRead, heldModel = rtx, s.model.clone()
			}
		}
		work := s.model.clone()
		s.touched = map[string]bool{}
		outcome := t.Weighted([]int{10, 3, 3, 2}) // commit, rollback, closure error, crash during commit
		nOps := 1 + t.Int(param(p, "ops", 10))
		crashed := false
		if outcome == 3 {
			// the process dies inside one of the storage writes of the commit
			s.disk.CrashAtWrite = s.disk.Writes + 1 + t.Int(3)
			s.disk.TornAt = t.Int(400)
			s.disk.CrashOnlyG = goid() // the callback unwinds this goroutine: compaction writes are skipped
			s.disk.OnCrash = func() { panic(errCrashNow) }
		}
		run := func(tx mwdb.DBTransaction) error {
			for j := 0; j < nOps && len(w.Violations) == 0; j++ {
				s.writeOp(t, tx, work)
				// a concurrent reader sees only committed data
				if t.Bool(15) {
					s.checkRead(s.model, "reader during open write transaction")
				}
			}
			if outcome == 2 {
				return errAbort
			}
			return nil
		}
		func() {
			defer func() {
				if r := recover(); r != nil {
					if r == errCrashNow {
						crashed = true
						return
					}
					panic(r)
				}
			}()
			switch outcome {
			case 1:
				tx, err := s.db.BeginTx()
				if err != nil {
					s.fail("begin-error", "BeginTx: %v", err)
					return
				}
				run(tx)
				tx.Rollback()
				s.logf("rollback")
				w.Stat("op.rollback")
			default:
				err := mwdb.Update(s.db, run)
				if outcome == 2 {
					if err != errAbort {
						s.fail("update-error", "Update returned %v, want the closure's error", err)
					}
					s.logf("closure-error")
					w.Stat("op.closure_error")
				} else if err != nil {
					s.fail("commit-error", "commit failed without any injected fault: %v", err)
				} else {
					s.model = work
					s.logf("commit")
					w.Stat("op.commit")
				}
			}
		}()
		if heldRead != nil {
			if !crashed && len(w.Violations) == 0 {
				s.checkReadIn(heldRead, heldModel, "read transaction opened before a write transaction and read after it ended")
				w.Stat("check.read_tx_held_across_commit")
			}
			if !crashed {
				heldRead.Rollback()
			}
		}
		if len(w.Violations) > 0 {
			return
		}
		if outcome == 3 {
			s.disk.CrashAtWrite = 0
			if !crashed {
				// the transaction wrote nothing to storage: it committed normally
				s.model = work
				s.checkRead(s.model, "after commit")
				continue
			}
			w.Stat("fault.crash")
			w.Stat("fault.torn_write")
			s.disk = s.disk.CrashImage()
			if err := s.open(false); err != nil {
				s.fail("reopen-failed", "reopen after crash: %v", err)
				return
			}
			s.logf("crash+reopen")
			// all-or-nothing: the store equals the old or the new state
			save := w.Violations
			if !s.checkRead(s.model, "after crash (old state)") {
				w.Violations = save
				if s.checkRead(work, "after crash (new state)") {
					s.model = work
					w.Stat("probe.crash_commit_survived")
				} else {
					w.Violations = save
					s.fail("crash-partial", "after a crash during commit the store equals neither the state before nor after the transaction")
				}
			} else {
				w.Stat("probe.crash_commit_lost")
			}
			continue
		}
		s.checkRead(s.model, "after transaction")
	}
	s.db.Close()
	// no scheduler in this check: the distinctness measure is the hash of the
	// executed operation log
	hh := fnv.New64a()
	for _, o := range s.ops {
		hh.Write([]byte(o))
	}
	w.S.TraceHash = hh.Sum64()
	w.Sample = fmt.Sprintf("txs=%d buckets=%d wbuf=%d last=%s", nTx, len(s.model.buckets), s.wbuf, strings.Join(lastN(s.ops, 6), "; "))
	w.Stats["probe.model_nonempty"] = 0
	for _, kv := range s.model.kv {
		if len(kv) > 0 {
			w.Stats["probe.model_nonempty"] = 1
		}
	}
}

var errCrashNow = errors.New("crash now")

//go:norace
func lastN(s []string, n int) []string {
	if len(s) > n {
		return s[len(s)-n:]
	}
	return s
}

// writeOp draws one operation inside a write transaction and applies it to
// both the store and the working model, comparing results.
//
//go:norace
func (s *c11State) writeOp(t *Tape, tx mwdb.DBTransaction, work *dbModel) {
	paths := work.sortedPaths()
	pick := func() string {
		if len(paths) == 0 {
			return ""
		}
		return paths[t.Int(len(paths))]
	}
	switch t.Weighted([]int{4, 12, 7, 9, 5, 3, 2, 2}) {
	case 0: // create bucket (top-level or nested)
		name := c11Names[t.Int(len(c11Names))]
		parent := ""
		if len(paths) > 0 && t.Bool(60) {
			parent = pick()
			if strings.Count(parent, "/") >= 2 {
				parent = ""
			}
		}
		path := name
		if parent != "" {
			path = parent + "/" + name
		}
		var err error
		if parent == "" {
			_, err = tx.CreateTopLevelBucket(name)
		} else {
			pb := openBucket(tx, parent)
			if pb == nil {
				s.fail("bucket-missing", "bucket %q (in this transaction's state) not found", parent)
				return
			}
			_, err = pb.NewBucket(name)
		}
		s.logf("mk %s", path)
		if work.buckets[path] {
			// required only for buckets that exist in the committed state and
			// were not touched by this transaction (the statement says nothing
			// about creating a bucket twice inside one transaction)
			if err != mwdb.ErrBucketExist && s.model.buckets[path] && !s.touched[path] {
				s.fail("create-existing", "creating existing committed bucket %q returned %v", path, err)
			}
			return
		}
		s.touched[path] = true
		if err != nil {
			s.fail("create-error", "creating bucket %q: %v", path, err)
			return
		}
		work.buckets[path] = true
		work.kv[path] = map[string]string{}
	case 1: // put
		path := pick()
		if path == "" {
			return
		}
		b := openBucket(tx, path)
		if b == nil {
			s.fail("bucket-missing", "bucket %q (in this transaction's state) not found", path)
			return
		}
		k := s.poolKey(t, path)
		v := []byte(fmt.Sprintf("v%d", t.Int(1000)))
		if t.Bool(5) {
			v = nil
		}
		err := b.Put(k, v)
		s.logf("put %s %q=%q", path, k, v)
		if len(k) == 0 || len(v) == 0 {
			if err == nil {
				s.fail("put-illegal", "Put(%q,%q) in %q accepted", k, v, path)
			}
			return
		}
		if err != nil {
			s.fail("put-error", "Put(%q) in %q: %v", k, path, err)
			return
		}
		work.kv[path][string(k)] = string(v)
	case 2: // delete key
		path := pick()
		if path == "" {
			return
		}
		b := openBucket(tx, path)
		if b == nil {
			s.fail("bucket-missing", "bucket %q not found", path)
			return
		}
		k := s.poolKey(t, path)
		if err := b.Delete(k); err != nil {
			s.fail("delete-error", "Delete(%q) in %q: %v", k, path, err)
			return
		}
		s.logf("del %s %q", path, k)
		delete(work.kv[path], string(k))
	case 3: // point read inside the transaction
		path := pick()
		if path == "" {
			return
		}
		b := openBucket(tx, path)
		if b == nil {
			s.fail("bucket-missing", "bucket %q not found", path)
			return
		}
		k := s.poolKey(t, path)
		got, err := b.Get(k)
		if err != nil {
			s.fail("get-error", "Get(%q) in %q: %v", k, path, err)
			return
		}
		want, ok := work.kv[path][string(k)]
		if (got != nil) != ok || string(got) != want {
			s.fail("read-your-writes", "inside the transaction Get(%q) in %q = %q, model %q (present=%v)", k, path, got, want, ok)
		}
	case 4: // prefix read inside the transaction
		path := pick()
		if path == "" {
			return
		}
		b := openBucket(tx, path)
		if b == nil {
			s.fail("bucket-missing", "bucket %q not found", path)
			return
		}
		pre := c11Key(t)
		es, err := b.GetByPrefix(pre)
		if err != nil {
			s.fail("get-error", "GetByPrefix(%q) in %q: %v", pre, path, err)
			return
		}
		got, want := sortedEntries(es), modelEntries(work.kv[path], pre)
		if strings.Join(got, "|") != strings.Join(want, "|") {
			s.fail("read-your-writes", "inside the transaction GetByPrefix(%q) in %q = %q, model %q", pre, path, got, want)
		}
	case 5: // bucket listing inside the transaction
		path := ""
		if t.Bool(60) {
			path = pick()
		}
		var names []string
		var err error
		if path == "" {
			names, err = tx.BucketNames()
		} else {
			b := openBucket(tx, path)
			if b == nil {
				s.fail("bucket-missing", "bucket %q not found", path)
				return
			}
			names, err = b.BucketNames()
		}
		if err != nil {
			s.fail("get-error", "BucketNames(%q): %v", path, err)
			return
		}
		sort.Strings(names)
		if strings.Join(names, ",") != strings.Join(work.children(path), ",") {
			s.fail("read-your-writes", "inside the transaction buckets under %q are %q, model %q", path, names, work.children(path))
		}
	case 6: // clear
		path := pick()
		if path == "" {
			return
		}
		b := openBucket(tx, path)
		if b == nil {
			s.fail("bucket-missing", "bucket %q not found", path)
			return
		}
		if err := b.Clear(); err != nil {
			s.fail("clear-error", "Clear(%q): %v", path, err)
			return
		}
		s.logf("clear %s", path)
		work.kv[path] = map[string]string{}
	case 7: // delete a nested bucket
		path := pick()
		if path == "" || !strings.Contains(path, "/") {
			return
		}
		i := strings.LastIndex(path, "/")
		pb := openBucket(tx, path[:i])
		if pb == nil {
			s.fail("bucket-missing", "bucket %q not found", path[:i])
			return
		}
		if err := pb.DeleteBucket(path[i+1:]); err != nil {
			s.fail("delete-bucket-error", "DeleteBucket(%q): %v", path, err)
			return
		}
		s.logf("rmbucket %s", path)
		for b := range work.buckets {
			if b == path || strings.HasPrefix(b, path+"/") {
				s.touched[b] = true
			}
		}
		work.deleteBucket(path)
	}
}

// readOnlyProbe checks range iteration, prefix iteration and seek in a
// read-only transaction against the committed model.
//
//go:norace
func (s *c11State) readOnlyProbe(t *Tape) {
	paths := s.model.sortedPaths()
	if len(paths) == 0 {
		return
	}
	path := paths[t.Int(len(paths))]
	kv := s.model.kv[path]
	var all []string
	for k := range kv {
		all = append(all, k)
	}
	sort.Strings(all)
	mwdb.View(s.db, func(tx mwdb.ReadTransaction) error {
		b := openBucket(tx, path)
		if b == nil {
			s.fail("bucket-missing", "committed bucket %q not found", path)
			return nil
		}
		switch t.Int(4) {
		case 3: // an iterator that ran off its end (or sought beyond it) is positioned again
			it := b.NewIterator(nil)
			if t.Bool(50) {
				for it.Next() {
				}
			} else {
				it.Seek([]byte{0xff, 0xff, 0xff, 0xff, 0xff})
			}
			k := c11Key(t)
			if len(all) > 0 && t.Bool(60) {
				k = []byte(all[t.Int(len(all))])
			}
			var got []string
			if it.Seek(k) {
				got = append(got, fmt.Sprintf("%q=%q", it.Key(), it.Value()))
				for it.Next() {
					got = append(got, fmt.Sprintf("%q=%q", it.Key(), it.Value()))
				}
			}
			it.Release()
			var want []string
			for _, kk := range all {
				if bytes.Compare([]byte(kk), k) >= 0 {
					want = append(want, fmt.Sprintf("%q=%q", kk, kv[kk]))
				}
			}
			if strings.Join(got, "|") != strings.Join(want, "|") {
				s.fail("iteration", "seek %q in %q on an iterator that had reached its end yields %q, want %q", k, path, got, want)
			}
			s.w.Stat("check.seek_after_end")
		case 0: // prefix range
			pre := c11Key(t)
			it := b.NewIterator(mwdb.BytesPrefix(pre))
			var got []string
			for it.Next() {
				got = append(got, string(it.Key()))
			}
			it.Release()
			var want []string
			for _, k := range all {
				if bytes.HasPrefix([]byte(k), pre) {
					want = append(want, k)
				}
			}
			if strings.Join(got, "|") != strings.Join(want, "|") {
				s.fail("iteration", "prefix iteration %q in %q yields %q, want %q", pre, path, got, want)
			}
			s.w.Stat("check.prefix_iteration")
		case 1: // explicit range [start, limit)
			a, c := c11Key(t), c11Key(t)
			if bytes.Compare(a, c) > 0 {
				a, c = c, a
			}
			if len(c) == 0 {
				return nil
			}
			it := b.NewIterator(&mwdb.Range{Start: a, Limit: c})
			var got []string
			for it.Next() {
				got = append(got, string(it.Key()))
			}
			it.Release()
			var want []string
			for _, k := range all {
				if bytes.Compare([]byte(k), a) >= 0 && bytes.Compare([]byte(k), c) < 0 {
					want = append(want, k)
				}
			}
			if strings.Join(got, "|") != strings.Join(want, "|") {
				s.fail("iteration", "range iteration [%q,%q) in %q yields %q, want %q", a, c, path, got, want)
			}
			s.w.Stat("check.range_iteration")
		case 2: // seek then continue
			k := c11Key(t)
			it := b.NewIterator(nil)
			var got []string
			if it.Seek(k) {
				got = append(got, string(it.Key()))
				for it.Next() {
					got = append(got, string(it.Key()))
				}
			}
			it.Release()
			var want []string
			for _, kk := range all {
				if bytes.Compare([]byte(kk), k) >= 0 {
					want = append(want, kk)
				}
			}
			if strings.Join(got, "|") != strings.Join(want, "|") {
				s.fail("iteration", "seek %q in %q then next yields %q, want %q", k, path, got, want)
			}
			s.w.Stat("check.seek")
		}
		return nil
	})
}
