package sim

import "fmt"

//go:norace
func init() { Runners["C20"] = runC20 }

// runC20: histories with blocks queued, imports and removals running; a stop
// request whose close(quit) lands at a schedule-chosen point. After the stop
// request a fair schedule must bring Stop to return with the database closed.
// Without a stop request every announced tip must be processed and every
// accepted task must finish (checked by finalCheck + wallet listing).
//
//go:norace
func runC20(w *World, p map[string]int) {
	t := w.Plan
	w.SetKnobs(drawKnobs(w))
	inst := w.NewInstance("A")
	if err := inst.Open(); err != nil {
		w.Violate("C20.harness", "%v", err)
		return
	}
	pressure := t.Bool(param(p, "longpct", 6))
	nW := 2 + t.Int(4)
	if pressure {
		nW = 2 // more wallets are created after Start (the task queue is sized at Start)
	}
	if err := setupWallets(w, inst, nW); err != nil {
		w.Violate("C20.setup", "%v", err)
		return
	}
	if pressure {
		// a long chain: rescans of re-imported wallets span several
		// 1000-height batches (the worker re-queues the task between them)
		w.PreMine(t, 1001+t.Int(1300), 97)
		w.Stat("probe.long_chain")
	}
	if err := inst.StartSolo(); err != nil {
		w.Violate("C20.start", "Start: %v", err)
		return
	}
	// give the worker a chance to initialise first in most runs (the start-up
	// window itself is explored when this is skipped)
	if !t.Bool(10) {
		w.runSteps(2)
	}
	nOps := 3 + t.Int(param(p, "ops", 25))
	var removed []*WalletState
	if pressure {
		// queue pressure on a long chain: one wallet is removed and restored
		// (its rescan needs several batches, i.e. re-queues), and while that
		// runs three more removals are accepted back to back
		for k := 0; k < 3; k++ {
			if ws, err := inst.CreateWallet(fmt.Sprintf("late%dPassw", k), 128, true); err == nil {
				if _, e2 := inst.Use(ws.ID, true); e2 == nil {
					inst.NewAddress(false, true)
				}
			}
		}
		ids := inst.SortedWalletIDs()
		first := inst.Wallets[ids[t.Int(len(ids))]]
		if err := inst.RemoveWallet(first.ID, first.Pass, true); err == nil {
			w.S.Quiesce(20000)
			if w.walletGone(inst, first.ID) {
				delete(inst.Wallets, first.ID)
				if nw, err := inst.ImportMnemonic(first, uint32(len(first.Issued)), true); err == nil {
					nw.Issued = first.Issued
					w.Gen.AddWalletParty(nw)
					w.runSteps(1 + t.Int(6))
					for _, id := range inst.SortedWalletIDs() {
						if id == nw.ID || w.Stats["probe.pressure_removals"] >= 3 {
							continue
						}
						ws := inst.Wallets[id]
						if err := inst.RemoveWallet(id, ws.Pass, true); err == nil {
							removed = append(removed, ws)
							w.Stat("probe.pressure_removals")
						}
					}
				}
			}
		}
	}
	stopAt := nOps // == nOps means: no stop, liveness only
	if t.Bool(65) {
		stopAt = t.Int(nOps)
	}
	var stopper *G
	for i := 0; i < nOps && len(w.Violations) == 0; i++ {
		if i == stopAt {
			if wg := inst.workerG; wg != nil && !wg.done && wg.parked != "worker.select" {
				w.Stat("probe.stop_issued_while_task_in_flight")
			}
			if len(inst.Pending) > 0 {
				w.Stat("probe.stop_issued_with_tips_queued")
			}
			if inst.WM.SimTaskQueueLen() > 0 {
				w.Stat("probe.stop_issued_with_task_queued")
			}
			stopper = inst.StopAsync()
			w.Stat("op.stop")
			break
		}
		switch t.Weighted([]int{8, 2, 4, 4, 3, 2, 2}) {
		case 6:
			// unconfirmed transactions, some announced a second time (the node
			// does that when a transaction re-enters its pool)
			w.AnnounceLoose(t)
			if t.Bool(50) {
				w.runSteps(t.Int(6))
				if tx, _ := w.AnnounceAgain(t); tx != nil {
					w.Stat("probe.unconfirmed_announced_twice")
				}
			}
		case 5:
			// burst: several task requests back to back while the worker is
			// not scheduled (queue pressure)
			for k := 0; k < 3; k++ {
				var live []string
				for _, id := range inst.SortedWalletIDs() {
					if !inst.Wallets[id].Removing {
						live = append(live, id)
					}
				}
				if len(live) > 1 && t.Bool(60) {
					id := live[t.Int(len(live))]
					ws := inst.Wallets[id]
					if err := inst.RemoveWallet(id, ws.Pass, true); err == nil {
						removed = append(removed, ws)
					}
				} else if len(removed) > 0 {
					src := removed[t.Int(len(removed))]
					if _, still := inst.Wallets[src.ID]; still && !w.walletGone(inst, src.ID) {
						continue
					}
					delete(inst.Wallets, src.ID)
					if nw, err := inst.ImportMnemonic(src, uint32(len(src.Issued)), true); err == nil {
						nw.Issued = src.Issued
						w.Gen.AddWalletParty(nw)
					}
				}
			}
			w.Stat("op.task_burst")
			continue
		case 0:
			w.MineOnTip(t, 70)
		case 1:
			w.Fork(t, 1+t.Int(3), 1, 50, 2)
		case 2:
			w.runSteps(1 + t.Int(10))
		case 3:
			// remove a wallet (right or wrong passphrase)
			ids := inst.SortedWalletIDs()
			var live []string
			for _, id := range ids {
				if !inst.Wallets[id].Removing {
					live = append(live, id)
				}
			}
			if len(live) <= 1 {
				break
			}
			id := live[t.Int(len(live))]
			ws := inst.Wallets[id]
			pass := ws.Pass
			if t.Bool(15) {
				pass = "wrongPass1"
			}
			err := inst.RemoveWallet(id, pass, t.Bool(50))
			if err == nil {
				removed = append(removed, ws)
				// the same removal requested once more while the first is under
				// way (a client that retries): whatever the wallet answers, an
				// accepted task must finish
				if t.Bool(25) {
					w.runSteps(t.Int(4))
					if e2 := inst.RemoveWallet(id, ws.Pass, true); e2 == nil {
						w.Stat("probe.removal_accepted_twice")
					}
					ws.Removing = true
					// ... and the wallet restored the moment it is gone (a task
					// left over from the retried request must not touch it)
					if t.Bool(50) {
						for k := 0; k < 400 && !w.walletGone(inst, id); k++ {
							w.runSteps(1)
						}
						if w.walletGone(inst, id) {
							delete(inst.Wallets, id)
							if nw, err := inst.ImportMnemonic(ws, uint32(len(ws.Issued)), true); err == nil {
								nw.Issued = ws.Issued
								w.Gen.AddWalletParty(nw)
								w.Stat("probe.restored_right_after_retried_removal")
							}
						}
					}
				}
			}
		case 4:
			// import a previously removed wallet again (if its removal finished)
			if len(removed) == 0 {
				break
			}
			src := removed[t.Int(len(removed))]
			if _, still := inst.Wallets[src.ID]; still && !w.walletGone(inst, src.ID) {
				break
			}
			delete(inst.Wallets, src.ID)
			if nw, err := inst.ImportMnemonic(src, uint32(len(src.Issued)), t.Bool(50)); err == nil {
				nw.Issued = src.Issued
				w.Gen.AddWalletParty(nw)
			}
		}
		w.runSteps(t.Int(5))
		if len(w.S.FatalExits) > 0 || len(w.S.Panics) > 0 {
			break
		}
	}
	w.Sample = fmt.Sprintf("wallets=%d ops=%d stopAt=%d removals=%d imports=%d height=%d", nW, nOps, stopAt,
		w.Stats["op.remove_wallet"], w.Stats["op.import_mnemonic"], w.Node.Tip().Height)
	if len(w.S.Panics) > 0 {
		w.Violate("C20.panic", "%s", firstLines(w.S.Panics[0], 40))
		return
	}
	if len(w.S.FatalExits) > 0 {
		w.Violate("C20.follower-died", "%s", firstLines(w.S.FatalExits[0], 40))
		return
	}
	if len(w.Violations) > 0 {
		return
	}
	if stopper != nil {
		// the stop request is in flight: first let the schedule interleave a
		// few more steps (placing close(quit) anywhere), then drain fairly.
		w.runSteps(t.Int(12))
		where := fmt.Sprint(w.S.ParkedSummary())
		budget := 20000
		ok := w.S.RunSolo(stopper, budget)
		if !ok {
			w.Stat("probe.stop_deadlock")
			w.Violate("C20.stop-hangs", "Stop did not return: every goroutine is blocked. state when the drain began: %s; final state: %v", where, w.S.ParkedSummary())
			return
		}
		inst.Stopped = true
		if !inst.DB.Closed {
			w.Violate("C20.db-not-closed", "Stop returned but the wallet database was not closed")
		}
		w.Stat("check.stop_returned")
		if w.Stats["op.remove_wallet"] > 0 || w.Stats["op.import_mnemonic"] > 0 {
			w.Stat("check.stop_with_task_history")
		}
		return
	}
	// no stop: liveness of tips and tasks
	pending := len(inst.Pending)
	n, ok := w.S.Quiesce(20000 + 500*pending)
	if !ok {
		w.Violate("C20.liveness", "not quiescent after %d fair steps: %v | wallet errors: %q", n, w.S.ParkedSummary(), w.RecentErrors(4))
		if w.LogOn {
			es, _ := DumpDB(inst.DB)
			for _, e := range es {
				if e.Bucket[0] != 'k' {
					w.Logf("db %s", e.String())
				}
			}
		}
		return
	}
	if len(w.S.Panics) > 0 {
		w.Violate("C20.panic", "%s", firstLines(w.S.Panics[0], 40))
		return
	}
	if len(w.S.FatalExits) > 0 {
		w.Violate("C20.follower-died", "%s", firstLines(w.S.FatalExits[0], 40))
		return
	}
	if !w.AllDelivered() {
		w.Violate("C20.liveness", "quiescent but %d notifications undelivered: %v", len(inst.Pending), w.S.ParkedSummary())
		return
	}
	ls, err := inst.ListWallets()
	if err != nil {
		w.Violate("C20.wallets-error", "Wallets(): %v", err)
		return
	}
	listed := map[string]bool{}
	for _, l := range ls {
		listed[l.ID] = true
	}
	for _, id := range inst.SortedWalletIDs() {
		// an accepted import finishes with the wallet there, not with nothing
		if ws := inst.Wallets[id]; !ws.Removing && !listed[id] {
			w.Violate("C20.wallet-vanished", "wallet %s (imported=%v) was created or restored, never removed since, and is not listed at quiescence", id, ws.Imported)
		}
	}
	for _, l := range ls {
		if !l.Ready || l.Removing {
			w.Violate("C20.task-unfinished", "at quiescence wallet %s is still ready=%v removing=%v synced=%d; queue=%d; %v",
				l.ID, l.Ready, l.Removing, l.Synced, inst.WM.SimTaskQueueLen(), w.S.ParkedSummary())
		}
	}
	w.Stat("check.liveness")
}

// walletGone reports whether id is no longer listed.
//
//go:norace
func (w *World) walletGone(inst *Instance, id string) bool {
	ls, err := inst.ListWallets()
	if err != nil {
		return false
	}
	for _, l := range ls {
		if l.ID == id {
			return false
		}
	}
	return true
}
