//go:build !race

package sim

func raceOff()        {}
func raceOn()         {}
func raceErrors() int { return 0 }

const raceBuild = false
