package sim

import (
	"context"
	"encoding/hex"
	"encoding/json"
	"fmt"
	"os"
	"reflect"
	"sort"
	"strings"

	"github.com/golang/protobuf/ptypes/empty"
	"github.com/massnetorg/mass-core/consensus"
	"github.com/massnetorg/mass-core/massutil"
	"github.com/massnetorg/mass-core/wire"
	"massnet.org/mass-wallet/api"
	pb "massnet.org/mass-wallet/api/proto"
	"massnet.org/mass-wallet/masswallet"
)

//go:norace
func init() { Runners["C19"] = runC19 }

// fz is the request generator of C19: every argument is drawn either from the
// material the current world offers (addresses, ids, transaction ids and
// outpoints of every kind, drafts the wallet built earlier) or from a set of
// boundary and malformed shapes.
type fz struct {
	w    *World
	inst *Instance
	srv  *api.APIServer
	t    *Tape
	// drafts and signed transactions returned by earlier requests
	hexes []string
	// passphrases in use
	pass []string
	// ids of wallets removed or being removed / imported
	oldIDs []string
	// mnemonics and keystores of wallets that existed at some point
	mnemonics []string
	keystores []string
	nReq      int
	// mis: chance (percent) that an argument of the current request is drawn
	// from the malformed/foreign shapes instead of the fitting ones
	mis int
}

//go:norace
func (f *fz) bad() bool { return f.mis > 0 && f.t.Bool(f.mis) }

var badStrings = []string{"", " ", "0", "ms1qq", "ms1qqqqqqqqqqqqqqqqqqqqqqqqqqqqqqqqqqqqqqqqqqqqqqqqqqqqqq", "\x00", "ÿÿÿ", "ac10", "ms1q" + strings.Repeat("q", 300), strings.Repeat("9", 70), "null", "-1", "{}", "0x00", strings.Repeat("ab", 32), strings.Repeat("zz", 32), strings.Repeat("00", 32), strings.Repeat("ff", 31)}

var amountStrings = []string{"0", "1", "0.5", "0.00000001", "0.000000001", "1.00000000", "20", "2000", "206438400", "206438401", "99999999999999999999", "-1", "-0.5", "", "abc", "1e3", "1,5", ".5", "5.", "0x10", " 1", "1 ", "NaN", "+1"}

//go:norace
func (f *fz) pick(ss []string) string {
	if len(ss) == 0 {
		return ""
	}
	return ss[f.t.Int(len(ss))]
}

// walletAddrs returns issued addresses of every wallet of the instance.
//
//go:norace
func (f *fz) walletAddrs(staking int) []string {
	var out []string
	for _, id := range f.inst.SortedWalletIDs() {
		for _, ia := range f.inst.Wallets[id].Issued {
			if staking < 0 || (staking == 1) == ia.Staking {
				out = append(out, ia.Addr)
			}
		}
	}
	return out
}

//go:norace
func (f *fz) strangerAddrs() []string {
	var out []string
	for _, p := range f.w.Gen.Parties {
		if p.Wallet == nil {
			for _, h := range p.Hashes {
				out = append(out, f.w.Gen.addrString(h))
				if sa, err := massutil.NewAddressStakingScriptHash(h[:], f.w.Params); err == nil {
					out = append(out, sa.EncodeAddress())
				}
			}
		}
	}
	return out
}

//go:norace
func (f *fz) bindingTargets() []string {
	var out []string
	for i := 0; i < 3; i++ {
		tb := make([]byte, 20)
		tb[19] = byte(i + 1)
		if a, err := massutil.NewAddressPubKeyHash(tb, f.w.Params); err == nil {
			out = append(out, a.EncodeAddress())
		}
	}
	return out
}

// addr draws an address-like string.
//
//go:norace
func (f *fz) addr() string {
	if !f.bad() {
		// an address that fits: of the selected wallet, of another wallet, of a stranger
		var own []string
		if ws := f.inst.Wallets[f.inst.Current]; ws != nil {
			for _, ia := range ws.Issued {
				if !ia.Staking {
					own = append(own, ia.Addr)
				}
			}
		}
		if len(own) > 0 && f.t.Bool(60) {
			return f.pick(own)
		}
		if a := f.walletAddrs(0); len(a) > 0 && f.t.Bool(50) {
			return f.pick(a)
		}
		for _, p := range f.w.Gen.Parties {
			if p.Wallet == nil && len(p.Hashes) > 0 {
				return f.w.Gen.addrString(p.Hashes[f.t.Int(len(p.Hashes))])
			}
		}
	}
	switch f.t.Weighted([]int{8, 3, 3, 1, 3, 1}) {
	case 0:
		if a := f.walletAddrs(-1); len(a) > 0 {
			return f.pick(a)
		}
	case 1:
		return f.pick(f.strangerAddrs())
	case 2:
		if a := f.walletAddrs(1); len(a) > 0 {
			return f.pick(a)
		}
	case 3:
		return f.pick(f.bindingTargets())
	case 4:
		return f.pick(badStrings)
	case 5:
		// a valid address with one character changed
		if a := f.walletAddrs(-1); len(a) > 0 {
			s := []byte(f.pick(a))
			i := f.t.Int(len(s))
			s[i] = "qpzry9x8gf2tvdw0s3jn54khce6mua7l1bio-"[f.t.Int(37)]
			return string(s)
		}
	}
	return f.pick(badStrings)
}

//go:norace
func (f *fz) addrs(max int) []string {
	n := f.t.Weighted([]int{2, 5, 3, 1})
	if n == 3 {
		n = max
	}
	var out []string
	for i := 0; i < n; i++ {
		out = append(out, f.addr())
	}
	if f.t.Bool(5) && len(out) > 0 {
		out = append(out, out[0])
	}
	return out
}

// txids of every kind the world knows plus malformed ones.
//
//go:norace
func (f *fz) txid() string {
	n := f.w.Node
	n.mu.Lock()
	var hs []wire.Hash
	for h := range n.allTx {
		hs = append(hs, h)
	}
	n.mu.Unlock()
	sort.Slice(hs, func(i, j int) bool { return hs[i].String() < hs[j].String() })
	switch f.t.Weighted([]int{10, 2, 3}) {
	case 0:
		if len(hs) > 0 {
			return hs[f.t.Int(len(hs))].String()
		}
	case 1:
		var h wire.Hash
		h[0], h[31] = byte(f.t.Int(256)), byte(f.t.Int(256))
		return h.String()
	}
	return f.pick(badStrings)
}

// outpoint draws (txid, vout): unspent wallet coins, foreign coins, spent
// outputs, outputs of pending transactions, out-of-range indexes.
//
//go:norace
func (f *fz) outpoint() (string, uint32) {
	g := f.w.Gen
	view := sortedCoins(g.utxoAt(f.w.Node.Tip()))
	if !f.bad() {
		// an unspent coin of the selected wallet, if there is one
		if ws := f.inst.Wallets[f.inst.Current]; ws != nil {
			var own []*genCoin
			for _, c := range view {
				if pi := g.ownerOf(c.pk); pi >= 0 && g.Parties[pi].Wallet == ws {
					own = append(own, c)
				}
			}
			if len(own) > 0 {
				c := own[f.t.Int(len(own))]
				return c.op.Hash.String(), c.op.Index
			}
		}
	}
	switch f.t.Weighted([]int{10, 4, 3, 3}) {
	case 0:
		if len(view) > 0 {
			c := view[f.t.Int(len(view))]
			return c.op.Hash.String(), c.op.Index
		}
	case 1:
		if len(g.Mempool) > 0 {
			tx := g.Mempool[f.t.Int(len(g.Mempool))]
			h := tx.TxHash()
			return h.String(), uint32(f.t.Int(len(tx.TxOut) + 1))
		}
	case 2:
		id := f.txid()
		return id, []uint32{0, 1, 2, 7, 255, 65535, 1 << 31, 0xffffffff}[f.t.Int(8)]
	}
	return f.txid(), uint32(f.t.Int(4))
}

//go:norace
func (f *fz) inputs() []*pb.TransactionInput {
	n := f.t.Weighted([]int{1, 6, 4, 2})
	var out []*pb.TransactionInput
	for i := 0; i < n; i++ {
		id, v := f.outpoint()
		out = append(out, &pb.TransactionInput{TxId: id, Vout: v})
	}
	if f.bad() && f.t.Bool(30) && len(out) > 0 {
		out = append(out, out[0])
	}
	if f.bad() && f.t.Bool(20) {
		// an empty element (a nil one cannot travel over the wire)
		out = append(out, &pb.TransactionInput{})
	}
	return out
}

//go:norace
func (f *fz) amount() string {
	if !f.bad() {
		return []string{"0.001", "0.01", "0.05", "0.1", "0.3", "1", "10", "2048", "0.0001", "0.00001"}[f.t.Int(10)]
	}
	return f.pick(amountStrings)
}

//go:norace
func (f *fz) amounts() map[string]string {
	n := f.t.Weighted([]int{1, 6, 3, 1})
	m := map[string]string{}
	for i := 0; i < n; i++ {
		m[f.addr()] = f.amount()
	}
	return m
}

//go:norace
func (f *fz) walletID() string {
	ids := f.inst.SortedWalletIDs()
	if !f.bad() && len(ids) > 0 {
		return f.pick(ids)
	}
	switch f.t.Weighted([]int{8, 3, 3}) {
	case 0:
		if len(ids) > 0 {
			return f.pick(ids)
		}
	case 1:
		if len(f.oldIDs) > 0 {
			return f.pick(f.oldIDs)
		}
	}
	return f.pick(badStrings)
}

//go:norace
func (f *fz) passphrase() string {
	if !f.bad() {
		if ws := f.inst.Wallets[f.inst.Current]; ws != nil {
			return ws.Pass
		}
	}
	switch f.t.Weighted([]int{6, 3, 2}) {
	case 0:
		if len(f.pass) > 0 {
			return f.pick(f.pass)
		}
	case 1:
		return []string{"", "wrong", "123456", strings.Repeat("x", 41), strings.Repeat("p", 500), "pässwörd1", "\x00\x00\x00\x00\x00\x00"}[f.t.Int(7)]
	}
	return "wrongPass1"
}

//go:norace
func (f *fz) lockTime() uint64 {
	if !f.bad() {
		return []uint64{0, 0, 0, 1, 5, 30}[f.t.Int(6)]
	}
	return []uint64{0, 0, 0, 1, 5, 100, 1 << 31, 1<<63 - 1, 1 << 63, ^uint64(0)}[f.t.Int(10)]
}

// txHex draws transaction bytes in hex: drafts the wallet built, crafted
// transactions whose inputs are of every kind, and damaged encodings.
//
//go:norace
func (f *fz) txHex() string {
	if !f.bad() {
		if len(f.hexes) > 0 && f.t.Bool(60) {
			return f.pick(f.hexes)
		}
		return f.craftedTx()
	}
	switch f.t.Weighted([]int{6, 6, 2, 2}) {
	case 0:
		if len(f.hexes) > 0 {
			return f.pick(f.hexes)
		}
	case 1:
		return f.craftedTx()
	case 2:
		if len(f.hexes) > 0 {
			s := f.pick(f.hexes)
			switch f.t.Int(3) {
			case 0:
				return s[:f.t.Int(len(s)+1)]
			case 1:
				b := []byte(s)
				b[f.t.Int(len(b))] = "0123456789abcdefg"[f.t.Int(17)]
				return string(b)
			case 2:
				return s + s[:f.t.Int(len(s)+1)]
			}
		}
	}
	return f.pick(badStrings)
}

//go:norace
func (f *fz) craftedTx() string {
	tx := wire.NewMsgTx()
	if len(f.hexes) > 0 && f.t.Bool(50) {
		if d, err := decodeTxHex(f.pick(f.hexes)); err == nil {
			tx = d
		}
	}
	nIn := f.t.Weighted([]int{1, 5, 3, 1})
	for i := 0; i < nIn; i++ {
		id, v := f.outpoint()
		h, err := wire.NewHashFromStr(id)
		if err != nil {
			h = &wire.Hash{}
		}
		in := wire.NewTxIn(wire.NewOutPoint(h, v), nil)
		if f.t.Bool(10) {
			in.Witness = dummyWitness()
		}
		if f.t.Bool(10) {
			in.Sequence = []uint64{0, 1, 1 << 31, ^uint64(0)}[f.t.Int(4)]
		}
		if len(tx.TxIn) > 0 && f.t.Bool(50) {
			tx.TxIn[f.t.Int(len(tx.TxIn))] = in
		} else {
			tx.AddTxIn(in)
		}
	}
	nOut := f.t.Weighted([]int{2, 5, 2})
	for i := 0; i < nOut; i++ {
		var pk []byte
		switch f.t.Int(5) {
		case 0, 1:
			var h [32]byte
			h[0] = byte(f.t.Int(256))
			pk = stdScript(h)
		case 2:
			var h [32]byte
			pk = stakingScript(h, uint64(f.t.Int(100000)))
		case 3:
			pk = []byte{0x6a, 0x01, 0x02}
		case 4:
			pk = make([]byte, f.t.Int(40))
		}
		tx.AddTxOut(wire.NewTxOut(int64(f.t.Int(1<<30))-5, pk))
	}
	if f.t.Bool(10) {
		tx.Payload = make([]byte, f.t.Int(3000))
	}
	if f.t.Bool(10) {
		tx.LockTime = f.lockTime()
	}
	raw, err := tx.Bytes(wire.Packet)
	if err != nil {
		return ""
	}
	return hex.EncodeToString(raw)
}

var debugErrs = os.Getenv("VERIF_C19_ERRS") != ""

type apiCall struct {
	name   string
	weight int
	make   func(f *fz) (interface{}, func() (interface{}, error))
}

//go:norace
func (f *fz) calls() []apiCall {
	ctx := context.Background()
	s := f.srv
	return []apiCall{
		{"UseWallet", 8, func(f *fz) (interface{}, func() (interface{}, error)) {
			r := &pb.UseWalletRequest{WalletId: f.walletID()}
			return r, func() (interface{}, error) {
				resp, err := s.UseWallet(ctx, r)
				if err == nil {
					f.inst.Current = r.WalletId
				}
				return resp, err
			}
		}},
		{"Wallets", 2, func(f *fz) (interface{}, func() (interface{}, error)) {
			return nil, func() (interface{}, error) { return s.Wallets(ctx, &empty.Empty{}) }
		}},
		{"GetWalletBalance", 4, func(f *fz) (interface{}, func() (interface{}, error)) {
			r := &pb.GetWalletBalanceRequest{RequiredConfirmations: []int32{0, 1, 2, 10, -1, 1 << 30, -1 << 31}[f.t.Int(7)], Detail: f.t.Bool(50)}
			return r, func() (interface{}, error) { return s.GetWalletBalance(ctx, r) }
		}},
		{"GetAddressBalance", 4, func(f *fz) (interface{}, func() (interface{}, error)) {
			r := &pb.GetAddressBalanceRequest{RequiredConfirmations: []int32{0, 1, 3, -1, 1 << 30}[f.t.Int(5)], Addresses: f.addrs(40)}
			return r, func() (interface{}, error) { return s.GetAddressBalance(ctx, r) }
		}},
		{"GetUtxo", 4, func(f *fz) (interface{}, func() (interface{}, error)) {
			r := &pb.GetUtxoRequest{Addresses: f.addrs(40)}
			return r, func() (interface{}, error) { return s.GetUtxo(ctx, r) }
		}},
		{"CreateAddress", 3, func(f *fz) (interface{}, func() (interface{}, error)) {
			r := &pb.CreateAddressRequest{Version: []int32{0, 1, 0, 1, 2, -1, 10, 1 << 16, 1<<16 + 1, 1 << 30}[f.t.Int(10)]}
			return r, func() (interface{}, error) {
				resp, err := s.CreateAddress(ctx, r)
				if err == nil && resp != nil {
					if ws := f.inst.Wallets[f.inst.Current]; ws != nil {
						ws.Issued = append(ws.Issued, IssuedAddr{Index: uint32(len(ws.Issued)), Staking: r.Version == 1, Addr: resp.Address})
					}
				}
				return resp, err
			}
		}},
		{"GetAddresses", 3, func(f *fz) (interface{}, func() (interface{}, error)) {
			r := &pb.GetAddressesRequest{Version: []int32{0, 1, 2, -1, 1 << 16, 1 << 30}[f.t.Int(6)]}
			return r, func() (interface{}, error) { return s.GetAddresses(ctx, r) }
		}},
		{"ValidateAddress", 3, func(f *fz) (interface{}, func() (interface{}, error)) {
			r := &pb.ValidateAddressRequest{Address: f.addr()}
			return r, func() (interface{}, error) { return s.ValidateAddress(ctx, r) }
		}},
		{"CreateRawTransaction", 8, func(f *fz) (interface{}, func() (interface{}, error)) {
			r := &pb.CreateRawTransactionRequest{Inputs: f.inputs(), Amounts: f.amounts(), LockTime: f.lockTime()}
			if f.t.Bool(40) {
				r.ChangeAddress = f.addr()
			}
			if f.t.Bool(40) {
				for a := range r.Amounts {
					if f.t.Bool(60) {
						r.Subtractfeefrom = append(r.Subtractfeefrom, a)
					}
				}
				sort.Strings(r.Subtractfeefrom)
				if f.t.Bool(20) {
					r.Subtractfeefrom = append(r.Subtractfeefrom, f.addr())
				}
			}
			return r, func() (interface{}, error) {
				resp, err := s.CreateRawTransaction(ctx, r)
				if err == nil && resp != nil {
					f.hexes = append(f.hexes, resp.Hex)
				}
				return resp, err
			}
		}},
		{"AutoCreateTransaction", 8, func(f *fz) (interface{}, func() (interface{}, error)) {
			r := &pb.AutoCreateTransactionRequest{Amounts: f.amounts(), LockTime: f.lockTime()}
			if f.t.Bool(50) {
				r.Fee = f.amount()
			}
			if f.t.Bool(40) {
				r.FromAddress = f.addr()
			}
			if f.t.Bool(30) {
				r.ChangeAddress = f.addr()
			}
			return r, func() (interface{}, error) {
				resp, err := s.AutoCreateTransaction(ctx, r)
				if err == nil && resp != nil {
					f.hexes = append(f.hexes, resp.Hex)
				}
				return resp, err
			}
		}},
		{"CreateStakingTransaction", 4, func(f *fz) (interface{}, func() (interface{}, error)) {
			r := &pb.CreateStakingTransactionRequest{StakingAddress: f.addr(), Amount: f.amount(), FrozenPeriod: []uint32{0, 1, 5, 7, 61439, 61440, 1 << 31, 0xffffffff}[f.t.Int(8)]}
			if !f.bad() {
				r.FrozenPeriod = uint32(consensus.MinFrozenPeriod) + uint32(f.t.Int(5))
			}
			if f.t.Bool(60) {
				m := int64(consensus.MinStakingValue)
				r.Amount = []string{amtStr(m), amtStr(m - 1), amtStr(m + 12345), amtStr(3 * m)}[f.t.Int(4)]
			}
			if f.t.Bool(60) {
				if a := f.walletAddrs(1); len(a) > 0 {
					r.StakingAddress = f.pick(a)
				}
			}
			if f.t.Bool(40) {
				r.Fee = f.amount()
			}
			if f.t.Bool(30) {
				r.FromAddress = f.addr()
			}
			return r, func() (interface{}, error) {
				resp, err := s.CreateStakingTransaction(ctx, r)
				if err == nil && resp != nil {
					f.hexes = append(f.hexes, resp.Hex)
				}
				return resp, err
			}
		}},
		{"CreateBindingTransaction", 4, func(f *fz) (interface{}, func() (interface{}, error)) {
			r := &pb.CreateBindingTransactionRequest{}
			n := f.t.Weighted([]int{1, 6, 2})
			for i := 0; i < n; i++ {
				o := &pb.CreateBindingTransactionRequest_Output{HolderAddress: f.addr(), BindingAddress: f.addr(), Amount: f.amount()}
				if f.t.Bool(70) {
					o.BindingAddress = f.pick(f.bindingTargets())
				}
				r.Outputs = append(r.Outputs, o)
			}
			if f.t.Bool(4) {
				r.Outputs = append(r.Outputs, &pb.CreateBindingTransactionRequest_Output{})
			}
			if f.t.Bool(40) {
				r.Fee = f.amount()
			}
			if f.t.Bool(30) {
				r.FromAddress = f.addr()
			}
			return r, func() (interface{}, error) {
				resp, err := s.CreateBindingTransaction(ctx, r)
				if err == nil && resp != nil {
					f.hexes = append(f.hexes, resp.Hex)
				}
				return resp, err
			}
		}},
		{"CreatePoolPkCoinbaseTransaction", 2, func(f *fz) (interface{}, func() (interface{}, error)) {
			r := &pb.CreatePoolPkCoinbaseTransactionRequest{FromAddress: f.addr(), Payload: f.pick(append([]string{strings.Repeat("ab", 40), strings.Repeat("00", 200)}, badStrings...))}
			return r, func() (interface{}, error) {
				resp, err := s.CreatePoolPkCoinbaseTransaction(ctx, r)
				if err == nil && resp != nil {
					f.hexes = append(f.hexes, resp.Hex)
				}
				return resp, err
			}
		}},
		{"GetTransactionFee", 4, func(f *fz) (interface{}, func() (interface{}, error)) {
			r := &pb.GetTransactionFeeRequest{Amounts: f.amounts(), HasBinding: f.t.Bool(30)}
			if f.t.Bool(50) {
				r.Inputs = f.inputs()
			}
			return r, func() (interface{}, error) { return s.GetTransactionFee(ctx, r) }
		}},
		{"SignRawTransaction", 10, func(f *fz) (interface{}, func() (interface{}, error)) {
			r := &pb.SignRawTransactionRequest{RawTx: f.txHex(), Passphrase: f.passphrase(), Flags: []string{"ALL", "NONE", "SINGLE", "ALL|ANYONECANPAY", "NONE|ANYONECANPAY", "SINGLE|ANYONECANPAY", "", "all", "XX", strings.Repeat("A", 300)}[f.t.Int(10)]}
			if !f.bad() {
				r.Flags = []string{"ALL", "NONE", "SINGLE", "ALL|ANYONECANPAY"}[f.t.Int(4)]
			}
			return r, func() (interface{}, error) {
				resp, err := s.SignRawTransaction(ctx, r)
				if err == nil && resp != nil && resp.Hex != "" {
					f.hexes = append(f.hexes, resp.Hex)
				}
				return resp, err
			}
		}},
		{"DecodeRawTransaction", 3, func(f *fz) (interface{}, func() (interface{}, error)) {
			r := &pb.DecodeRawTransactionRequest{Hex: f.txHex()}
			return r, func() (interface{}, error) { return s.DecodeRawTransaction(ctx, r) }
		}},
		{"GetRawTransaction", 3, func(f *fz) (interface{}, func() (interface{}, error)) {
			r := &pb.GetRawTransactionRequest{TxId: f.txid()}
			return r, func() (interface{}, error) { return s.GetRawTransaction(ctx, r) }
		}},
		{"GetTxStatus", 3, func(f *fz) (interface{}, func() (interface{}, error)) {
			r := &pb.GetTxStatusRequest{TxId: f.txid()}
			return r, func() (interface{}, error) { return s.GetTxStatus(ctx, r) }
		}},
		{"TxHistory", 4, func(f *fz) (interface{}, func() (interface{}, error)) {
			r := &pb.TxHistoryRequest{Count: []uint32{0, 1, 2, 10, 1000, 1001, 1 << 31, 0xffffffff}[f.t.Int(8)]}
			if f.t.Bool(50) {
				r.Address = f.addr()
			}
			return r, func() (interface{}, error) { return s.TxHistory(ctx, r) }
		}},
		{"GetStakingHistory", 2, func(f *fz) (interface{}, func() (interface{}, error)) {
			r := &pb.GetStakingHistoryRequest{Type: []string{"", "all", "ALL", "x", "withdrawn"}[f.t.Int(5)]}
			return r, func() (interface{}, error) { return s.GetStakingHistory(ctx, r) }
		}},
		{"GetBindingHistory", 2, func(f *fz) (interface{}, func() (interface{}, error)) {
			r := &pb.GetBindingHistoryRequest{Type: []string{"", "all", "ALL", "x", "withdrawn"}[f.t.Int(5)]}
			return r, func() (interface{}, error) { return s.GetBindingHistory(ctx, r) }
		}},
		{"GetBestBlock", 1, func(f *fz) (interface{}, func() (interface{}, error)) {
			return nil, func() (interface{}, error) { return s.GetBestBlock(ctx, &empty.Empty{}) }
		}},
		{"GetBlockByHeight", 2, func(f *fz) (interface{}, func() (interface{}, error)) {
			r := &pb.GetBlockByHeightRequest{Height: []uint64{0, 1, 2, uint64(f.t.Int(40)), 1 << 40, ^uint64(0)}[f.t.Int(6)]}
			return r, func() (interface{}, error) { return s.GetBlockByHeight(ctx, r) }
		}},
		{"CreateWallet", 2, func(f *fz) (interface{}, func() (interface{}, error)) {
			r := &pb.CreateWalletRequest{Passphrase: f.passphrase(), Remarks: f.pick(badStrings), BitSize: []int32{128, 160, 192, 224, 256, 0, -1, 129, 512, 1 << 30}[f.t.Int(10)]}
			return r, func() (interface{}, error) {
				resp, err := s.CreateWallet(ctx, r)
				if err == nil && resp != nil {
					f.adopt(resp.WalletId, resp.Mnemonic, r.Passphrase)
				}
				return resp, err
			}
		}},
		{"ExportWallet", 2, func(f *fz) (interface{}, func() (interface{}, error)) {
			r := &pb.ExportWalletRequest{WalletId: f.walletID(), Passphrase: f.passphrase()}
			return r, func() (interface{}, error) {
				resp, err := s.ExportWallet(ctx, r)
				if err == nil && resp != nil {
					f.keystores = append(f.keystores, resp.Keystore)
				}
				return resp, err
			}
		}},
		{"GetWalletMnemonic", 2, func(f *fz) (interface{}, func() (interface{}, error)) {
			r := &pb.GetWalletMnemonicRequest{WalletId: f.walletID(), Passphrase: f.passphrase()}
			return r, func() (interface{}, error) { return s.GetWalletMnemonic(ctx, r) }
		}},
		{"RemoveWallet", 2, func(f *fz) (interface{}, func() (interface{}, error)) {
			r := &pb.RemoveWalletRequest{WalletId: f.walletID(), Passphrase: f.passphrase()}
			return r, func() (interface{}, error) {
				resp, err := s.RemoveWallet(ctx, r)
				if err == nil {
					f.w.Stat("probe.fuzz_remove_accepted")
					if ws := f.inst.Wallets[r.WalletId]; ws != nil {
						ws.Removing = true
						f.oldIDs = append(f.oldIDs, r.WalletId)
						delete(f.inst.Wallets, r.WalletId)
					}
				}
				return resp, err
			}
		}},
		{"ImportMnemonic", 3, func(f *fz) (interface{}, func() (interface{}, error)) {
			r := &pb.ImportMnemonicRequest{Mnemonic: f.pick(f.mnemonics), Passphrase: f.passphrase(), Remarks: "x",
				ExternalIndex: []uint32{0, 1, 3, 20, 100}[f.t.Int(5)], InternalIndex: []uint32{0, 0, 1, 7}[f.t.Int(4)]}
			if f.bad() && f.t.Bool(40) {
				r.ExternalIndex = []uint32{1000, 1<<31 - 1, 1 << 31, 0xffffffff}[f.t.Int(4)]
			}
			if f.bad() && f.t.Bool(25) {
				r.InternalIndex = []uint32{1000, 1 << 31, 0xffffffff}[f.t.Int(3)]
			}
			switch f.t.Int(6) {
			case 0:
				r.Mnemonic = f.pick(badStrings)
			case 1:
				ws := strings.Fields(r.Mnemonic)
				if len(ws) > 2 {
					ws[f.t.Int(len(ws))] = []string{"zzzz", "abandon", "", "ability"}[f.t.Int(4)]
					r.Mnemonic = strings.Join(ws[:len(ws)-f.t.Int(2)], " ")
				}
			}
			return r, func() (interface{}, error) {
				resp, err := s.ImportMnemonic(ctx, r)
				if err == nil && resp != nil {
					f.w.Stat("probe.fuzz_import_accepted")
					f.adopt(resp.WalletId, r.Mnemonic, r.Passphrase)
				}
				return resp, err
			}
		}},
		{"ImportWallet", 3, func(f *fz) (interface{}, func() (interface{}, error)) {
			r := &pb.ImportWalletRequest{Keystore: f.pick(f.keystores), Passphrase: f.passphrase()}
			switch f.t.Int(7) {
			case 6:
				// a well-formed keystore whose derivation-path numbers were edited
				var m map[string]interface{}
				if json.Unmarshal([]byte(r.Keystore), &m) == nil {
					if hp, ok := m["hdPath"].(map[string]interface{}); ok {
						field := []string{"ExternalChildNum", "InternalChildNum", "Account", "Coin", "Purpose"}[f.t.Int(5)]
						hp[field] = []interface{}{0, 1, 1000, 2147483647, 2147483648, 4294967295, -1, "x"}[f.t.Int(8)]
						if b, err := json.Marshal(m); err == nil {
							r.Keystore = string(b)
						}
					}
				}
			case 0:
				r.Keystore = f.pick(append([]string{"{}", "[]", `{"crypto":{}}`, `{"remarks":1}`}, badStrings...))
			case 1:
				if len(r.Keystore) > 4 {
					b := []byte(r.Keystore)
					i := f.t.Int(len(b))
					switch f.t.Int(3) {
					case 0:
						b[i] = "0aZ\"{}:,"[f.t.Int(8)]
					case 1:
						b = b[:i]
					case 2:
						b = append(b[:i:i], b[minInt(len(b), i+1+f.t.Int(8)):]...)
					}
					r.Keystore = string(b)
				}
			}
			return r, func() (interface{}, error) {
				resp, err := s.ImportWallet(ctx, r)
				if err == nil && resp != nil {
					f.w.Stat("probe.fuzz_import_accepted")
					f.adopt(resp.WalletId, "", r.Passphrase)
				}
				return resp, err
			}
		}},
	}
}

// directCalls are WalletManager methods called below the API layer, with the
// argument shapes the API layer can pass on (it refuses empty input lists and
// amount maps, counts above 1000 and negative numbers before they get here;
// those are not generated). What they add over the API calls: over-long and
// otherwise unchecked strings, address classes, lock times and payloads that
// the handlers do not look at.
//
//go:norace
func (f *fz) directCalls() []apiCall {
	wm := f.inst.WM
	amtMap := func() map[string]massutil.Amount {
		m := map[string]massutil.Amount{}
		for a, v := range f.amounts() {
			x, err := api.StringToAmount(v)
			if err != nil {
				x = massutil.ZeroAmount()
			}
			m[a] = x
		}
		// the API layer refuses an empty amount map before it gets here
		if len(m) == 0 {
			a, _ := massutil.NewAmountFromInt(100000)
			m[f.addr()] = a
		}
		return m
	}
	txins := func() []*masswallet.TxIn {
		var out []*masswallet.TxIn
		for _, in := range f.inputs() {
			out = append(out, &masswallet.TxIn{TxId: in.TxId, Vout: in.Vout})
		}
		// ... and an empty input list
		if len(out) == 0 {
			id, v := f.outpoint()
			out = append(out, &masswallet.TxIn{TxId: id, Vout: v})
		}
		return out
	}
	return []apiCall{
		{"wm.CreateRawTransaction", 4, func(f *fz) (interface{}, func() (interface{}, error)) {
			ins, am, lt, ch := txins(), amtMap(), f.lockTime(), ""
			if f.t.Bool(40) {
				ch = f.addr()
			}
			var sub map[string]struct{}
			if f.t.Bool(40) {
				sub = map[string]struct{}{f.addr(): {}}
			}
			return fmt.Sprintf("inputs=%d amounts=%v lock=%d change=%q sub=%v", len(ins), am, lt, ch, sub), func() (interface{}, error) {
				h, _, err := wm.CreateRawTransaction(ins, am, lt, ch, sub)
				if err == nil {
					f.hexes = append(f.hexes, h)
				}
				return &h, err
			}
		}},
		{"wm.AutoCreateRawTransaction", 3, func(f *fz) (interface{}, func() (interface{}, error)) {
			am, lt := amtMap(), f.lockTime()
			fee, _ := massutil.NewAmountFromInt(int64(f.t.Int(3)) * 100000)
			from, ch := "", ""
			if f.t.Bool(30) {
				from = f.addr()
			}
			if f.t.Bool(30) {
				ch = f.addr()
			}
			var payload []byte
			if f.t.Bool(20) {
				payload = make([]byte, f.t.Int(5000))
			}
			return fmt.Sprintf("amounts=%v lock=%d fee=%v from=%q change=%q payload=%d", am, lt, fee, from, ch, len(payload)), func() (interface{}, error) {
				h, _, err := wm.AutoCreateRawTransaction(am, lt, fee, from, ch, payload)
				if err == nil {
					f.hexes = append(f.hexes, h)
				}
				return &h, err
			}
		}},
		{"wm.EstimateManualTxFee", 2, func(f *fz) (interface{}, func() (interface{}, error)) {
			ins := txins()
			n := []int{0, 1, 2, 3, 50, 2000}[f.t.Int(6)]
			return fmt.Sprintf("inputs=%d outs=%d", len(ins), n), func() (interface{}, error) {
				a, err := wm.EstimateManualTxFee(ins, n)
				return &a, err
			}
		}},
		{"wm.GetTxHistory", 3, func(f *fz) (interface{}, func() (interface{}, error)) {
			n := []int{0, 1, 2, 5, 999, 1000}[f.t.Int(6)] // the API passes 0..1000
			a := ""
			if f.t.Bool(50) {
				a = f.addr()
			}
			return fmt.Sprintf("wanted=%d addr=%q", n, a), func() (interface{}, error) {
				r, err := wm.GetTxHistory(n, a)
				return &r, err
			}
		}},
		{"wm.NewAddress", 2, func(f *fz) (interface{}, func() (interface{}, error)) {
			c := []uint16{0, 1, 2, 3, 255, 65535}[f.t.Int(6)]
			return fmt.Sprintf("class=%d", c), func() (interface{}, error) {
				a, err := wm.NewAddress(c)
				if err == nil {
					if ws := f.inst.Wallets[f.inst.Current]; ws != nil {
						ws.Issued = append(ws.Issued, IssuedAddr{Index: uint32(len(ws.Issued)), Staking: c == 1, Addr: a})
					}
				}
				return &a, err
			}
		}},
		{"wm.GetAddresses", 2, func(f *fz) (interface{}, func() (interface{}, error)) {
			c := []uint16{0, 1, 2, 255, 65535}[f.t.Int(5)]
			return fmt.Sprintf("class=%d", c), func() (interface{}, error) {
				r, err := wm.GetAddresses(c)
				return &r, err
			}
		}},
		{"wm.GetUtxo", 2, func(f *fz) (interface{}, func() (interface{}, error)) {
			a := f.addrs(300)
			return fmt.Sprintf("addrs=%d", len(a)), func() (interface{}, error) {
				r, err := wm.GetUtxo(a)
				return &r, err
			}
		}},
		{"wm.AddressBalance", 2, func(f *fz) (interface{}, func() (interface{}, error)) {
			a := f.addrs(300)
			c := []uint32{0, 1, 100, 1 << 31, 0xffffffff}[f.t.Int(5)]
			return fmt.Sprintf("confs=%d addrs=%d", c, len(a)), func() (interface{}, error) {
				r, err := wm.AddressBalance(c, a)
				return &r, err
			}
		}},
		{"wm.WalletBalance", 2, func(f *fz) (interface{}, func() (interface{}, error)) {
			c := []uint32{0, 1, 100, 1 << 31, 0xffffffff}[f.t.Int(5)]
			d := f.t.Bool(50)
			return fmt.Sprintf("confs=%d detail=%v", c, d), func() (interface{}, error) {
				r, err := wm.WalletBalance(c, d)
				if err == nil && r == nil {
					return nil, nil
				}
				return r, err
			}
		}},
		{"wm.SignRawTx", 5, func(f *fz) (interface{}, func() (interface{}, error)) {
			tx, derr := decodeTxHex(f.craftedTx())
			if derr != nil || tx == nil {
				tx = wire.NewMsgTx()
			}
			pass := []byte(f.passphrase())
			flag := []string{"ALL", "NONE", "SINGLE", "ALL|ANYONECANPAY", "", "all", "|", "ALL|", strings.Repeat("A", 5000)}[f.t.Int(9)]
			return fmt.Sprintf("tx(%d in, %d out) flag=%q pass=%d bytes", len(tx.TxIn), len(tx.TxOut), flag, len(pass)), func() (interface{}, error) {
				r, err := wm.SignRawTx(pass, flag, tx)
				return &r, err
			}
		}},
	}
}

// adopt registers a wallet that a fuzzed request brought into being, so that
// later requests can name it (no ledger expectations are attached to it).
//
//go:norace
func (f *fz) adopt(id, mnemonic, pass string) {
	if id == "" {
		return
	}
	if _, ok := f.inst.Wallets[id]; !ok {
		f.inst.Wallets[id] = &WalletState{ID: id, Mnemonic: mnemonic, Pass: pass, Imported: true}
	}
	if mnemonic != "" {
		f.mnemonics = append(f.mnemonics, mnemonic)
	}
	f.pass = append(f.pass, pass)
}

//go:norace
func amtStr(maxwell int64) string {
	if maxwell < 0 {
		maxwell = 0
	}
	return fmt.Sprintf("%d.%08d", maxwell/100000000, maxwell%100000000)
}

//go:norace
func short(v interface{}) string {
	if v == nil || (reflect.ValueOf(v).Kind() == reflect.Ptr && reflect.ValueOf(v).IsNil()) {
		return "{}"
	}
	s := fmt.Sprintf("%+v", v)
	if len(s) > 900 {
		s = s[:900] + "..."
	}
	return s
}

// walletState describes the state a request met (for the violation text and
// the coverage counters).
//
//go:norace
func (f *fz) walletState() string {
	inst := f.inst
	var parts []string
	if inst.Current == "" {
		parts = append(parts, "no-wallet-selected")
	}
	ls, _ := inst.ListWallets()
	rm, im := false, false
	for _, s := range ls {
		if s.Removing {
			rm = true
		} else if !s.Ready {
			im = true
		}
	}
	if rm {
		parts = append(parts, "a-wallet-being-removed")
	}
	if im {
		parts = append(parts, "a-wallet-importing")
	}
	if len(f.w.Gen.Mempool) > 0 {
		parts = append(parts, "pending-transactions")
	}
	if len(parts) == 0 {
		return "ready"
	}
	sort.Strings(parts)
	return strings.Join(parts, "+")
}

//go:norace
func runC19(w *World, p map[string]int) {
	t := w.Plan
	k := drawKnobs(w)
	k.GapLimit = uint32(3 + t.Int(18))
	k.NodeGates = t.Bool(50)
	w.SetKnobs(k)
	inst := w.NewInstance("A")
	if err := inst.Open(); err != nil {
		w.Violate("C19.harness", "%v", err)
		return
	}
	nW := t.Int(4)
	if err := setupWallets(w, inst, nW); err != nil {
		w.Violate("C19.setup", "%v", err)
		return
	}
	if err := inst.StartSolo(); err != nil {
		w.Violate("C19.start", "Start: %v", err)
		return
	}
	srv, err := api.NewAPIServer(inst.srv, inst.WM, func() {}, inst.Cfg)
	if err != nil {
		w.Violate("C19.harness", "NewAPIServer: %v", err)
		return
	}
	// no request in these small worlds needs anywhere near this many storage
	// and chain-node queries; one that does is not going to answer
	w.S.WorkBudget = param(p, "workbudget", 60000)
	f := &fz{w: w, inst: inst, srv: srv, t: t}
	for _, id := range inst.SortedWalletIDs() {
		ws := inst.Wallets[id]
		f.pass = append(f.pass, ws.Pass)
		f.mnemonics = append(f.mnemonics, ws.Mnemonic)
	}
	if len(f.mnemonics) == 0 {
		f.mnemonics = []string{"abandon abandon abandon abandon abandon abandon abandon abandon abandon abandon abandon about"}
	}
	calls := append(f.calls(), f.directCalls()...)
	weights := make([]int, len(calls))
	for i, c := range calls {
		weights[i] = c.weight
	}
	// swarm: a random subset of methods is switched off per run
	if t.Bool(50) {
		for i := range weights {
			if t.Bool(35) && calls[i].name != "UseWallet" {
				weights[i] = 0
			}
		}
	}
	// some history first, so that the wallets hold coins of every kind
	pre := t.Int(param(p, "pre", 16))
	for i := 0; i < pre; i++ {
		w.MineOnTip(t, 75)
		w.runSteps(t.Int(8))
	}
	steps := 10 + t.Int(param(p, "steps", 60))
	for i := 0; i < steps && len(w.Violations) == 0; i++ {
		switch t.Weighted([]int{5, 1, 2, 3, 24, 1}) {
		case 0:
			w.MineOnTip(t, 70)
		case 1:
			w.Fork(t, 1+t.Int(3), 1+t.Int(2), 50, 2)
		case 2:
			w.AnnounceLoose(t)
		case 3:
			w.runSteps(1 + t.Int(12))
		case 4:
			f.request(calls, weights)
		case 5:
			// select a wallet that exists (keeps most requests past the first check)
			ids := inst.SortedWalletIDs()
			if len(ids) > 0 {
				id := ids[t.Int(len(ids))]
				r := &pb.UseWalletRequest{WalletId: id}
				f.run("UseWallet", r, func() (interface{}, error) {
					resp, err := srv.UseWallet(context.Background(), r)
					if err == nil {
						inst.Current = id
					}
					return resp, err
				})
			}
		}
		if f.followerGone() {
			return
		}
	}
	if len(w.Violations) > 0 {
		return
	}
	if !quiesceAll(w, "C19", 60000) {
		return
	}
	if f.followerGone() {
		return
	}
	if !w.AllDelivered() {
		w.Violate("C19.stall", "quiescent but chain events remain undelivered: %v | wallet errors: %q", w.S.ParkedSummary(), w.RecentErrors(4))
		return
	}
	w.Stat("check.c19_run")
	w.Sample = fmt.Sprintf("C19 wallets=%d requests=%d height=%d", nW, f.nReq, w.Node.Tip().Height)
}

// followerGone reports (and records) the death of the handler or worker.
//
//go:norace
func (f *fz) followerGone() bool {
	w, inst := f.w, f.inst
	if len(w.S.FatalExits) > 0 {
		w.Violate("C19.follower-died", "process ended through logging FATAL: %s", firstLines(w.S.FatalExits[0], 30))
		return true
	}
	if inst.StopRequested || inst.Dead {
		return false
	}
	for _, g := range []*G{inst.handlerG, inst.workerG} {
		if g != nil && g.done {
			w.Violate("C19.follower-died", "the %s goroutine exited although the wallet was not stopped | wallet errors: %q", g.Role, w.RecentErrors(6))
			return true
		}
	}
	return false
}

//go:norace
func (f *fz) request(calls []apiCall, weights []int) {
	f.mis = []int{0, 0, 0, 8, 8, 25, 60}[f.t.Int(7)]
	c := calls[f.t.Weighted(weights)]
	req, fn := c.make(f)
	f.run(c.name, req, fn)
}

//go:norace
func (f *fz) run(name string, req interface{}, fn func() (interface{}, error)) {
	w := f.w
	state := f.walletState()
	np := len(w.S.Panics)
	ns := len(w.S.Stalls)
	var resp interface{}
	var err error
	solo := f.t.Bool(70)
	done := f.inst.RunCall("api."+name, solo, func() { resp, err = fn() })
	f.nReq++
	w.Stat("op.request")
	w.Stat("request." + name)
	w.Stats["state."+state]++
	if len(w.S.Panics) > np {
		w.Violate("C19.panic", "%s(%s) in state [%s] panicked: %s", name, short(req), state, firstLines(w.S.Panics[np], 24))
		return
	}
	if len(w.S.Stalls) > ns {
		w.Violate("C19.stall", "%s(%s) in state [%s] does not answer: it made more than %d storage and chain-node queries (in a world of %d blocks and %d wallets) and was still going; executing: %s",
			name, short(req), state, w.S.WorkBudget, w.Node.Tip().Height, len(f.inst.Wallets), walletFrames(w.S.Stalls[ns], 8))
		return
	}
	if !done {
		if f.inst.Dead || w.S.CrashRequested {
			return
		}
		w.Violate("C19.stall", "%s(%s) in state [%s] did not return: %v", name, short(req), state, w.S.ParkedSummary())
		return
	}
	if err != nil {
		if debugErrs {
			e := err.Error()
			if len(e) > 70 {
				e = e[:70]
			}
			w.Stats["err."+name+"."+e]++
		}
		w.Stat("probe.request_refused")
	} else {
		w.Stat("probe.request_answered")
		w.Stat("answered." + name)
		if resp == nil || (reflect.ValueOf(resp).Kind() == reflect.Ptr && reflect.ValueOf(resp).IsNil()) {
			w.Violate("C19.no-answer", "%s(%s) in state [%s] returned neither a response nor an error", name, short(req), state)
		}
	}
	w.Logf("request %s(%s) state=%s -> err=%v", name, short(req), state, err)
}

// walletFrames lists the first n function names of the wallet's own code in a
// stack trace.
//
//go:norace
func walletFrames(stack string, n int) string {
	var out []string
	for _, l := range strings.Split(stack, "\n") {
		if strings.HasPrefix(l, "massnet.org/mass-wallet/") {
			fn := strings.TrimPrefix(l, "massnet.org/mass-wallet/")
			if i := strings.LastIndex(fn, "("); i > 0 {
				fn = fn[:i]
			}
			out = append(out, fn)
			if len(out) == n {
				break
			}
		}
	}
	return strings.Join(out, " <- ")
}
