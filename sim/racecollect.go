package sim

import (
	"fmt"
	"os"
	"path/filepath"
	"regexp"
	"sort"
	"strings"
)

// Race reports are written by the Go race detector to the file named by
// GORACE=log_path=<prefix> (suffix .<pid>). After every run the new part of
// that file is read and cut into reports; a report counts when both
// conflicting accesses are made by code of the wallet (or its libraries), not
// by the simulator's own bookkeeping.

var raceLogOff int64

//go:norace
func raceLogPath() string {
	for _, kv := range strings.Fields(os.Getenv("GORACE")) {
		if strings.HasPrefix(kv, "log_path=") {
			return strings.TrimPrefix(kv, "log_path=") + fmt.Sprintf(".%d", os.Getpid())
		}
	}
	return ""
}

type raceReport struct {
	Access1, Access2 string // "write masswallet.(*X).f" style
	Text             string
	Harness          bool
}

var reFrame = regexp.MustCompile(`(?m)^  (\S.*)\(\)\n      (\S+):(\d+)`)

// harnessFrame reports whether an access site belongs to the simulator.
//
//go:norace
func harnessFrame(fn string) bool {
	return strings.HasPrefix(fn, "verifsim.") || strings.Contains(fn, ".Sim") || strings.HasPrefix(fn, "testing") ||
		strings.HasPrefix(fn, "reflect.") || fn == "?"
}

//go:norace
func parseRaceReports(text string) []raceReport {
	var out []raceReport
	for _, blk := range strings.Split(text, "==================") {
		if !strings.Contains(blk, "WARNING: DATA RACE") {
			continue
		}
		// sections: "<Read|Write> at ... by goroutine N:" and "Previous <read|write> at ... by goroutine M:"
		secs := regexp.MustCompile(`(?m)^(Read|Write|Previous read|Previous write|Atomic read|Atomic write|Previous atomic read|Previous atomic write) at `).FindAllStringIndex(blk, -1)
		var acc []string
		harness := false
		for i, loc := range secs {
			end := len(blk)
			if i+1 < len(secs) {
				end = secs[i+1][0]
			}
			sec := blk[loc[0]:end]
			if j := strings.Index(sec, "\nGoroutine "); j > 0 {
				sec = sec[:j]
			}
			kind := strings.ToLower(strings.TrimPrefix(strings.SplitN(sec, " at ", 2)[0], "Previous "))
			fn := "?"
			owner := ""
			for _, m := range reFrame.FindAllStringSubmatch(sec, -1) {
				// the access site is the first frame outside the runtime
				// (map and slice helpers, atomics)
				if strings.HasPrefix(m[1], "runtime.") || strings.HasPrefix(m[1], "sync/atomic.") || strings.HasPrefix(m[1], "internal/") {
					continue
				}
				if fn == "?" {
					fn = strings.TrimPrefix(m[1], "massnet.org/mass-wallet/")
					fn = fmt.Sprintf("%s (%s:%s)", fn, filepath.Base(m[2]), m[3])
				}
				// whose access it is: the innermost frame of the simulator or
				// of the wallet decides (library code runs on behalf of one of them)
				if owner == "" {
					switch {
					case strings.HasPrefix(m[1], "massnet.org/mass-wallet/masswallet/db/ldb.") || strings.HasPrefix(m[1], "massnet.org/mass-wallet/masswallet/db."):
						// the store's own code: whoever called it owns the access
					case strings.HasPrefix(m[1], "verifsim.") || strings.Contains(m[1], ".Sim") || strings.HasPrefix(m[1], "testing"):
						owner = "sim"
					case strings.HasPrefix(m[1], "massnet.org/mass-wallet/"):
						owner = "wallet"
					}
				}
			}
			if owner != "wallet" {
				harness = true
			}
			acc = append(acc, kind+" in "+fn)
		}
		if len(acc) < 2 {
			continue
		}
		sort.Strings(acc)
		out = append(out, raceReport{Access1: acc[0], Access2: acc[1], Text: blk, Harness: harness})
	}
	return out
}

// collectRaces returns the reports added to the race log since the last call.
//
//go:norace
func collectRaces() []raceReport {
	p := raceLogPath()
	if p == "" {
		return nil
	}
	b, err := os.ReadFile(p)
	if err != nil || int64(len(b)) <= raceLogOff {
		return nil
	}
	text := string(b[raceLogOff:])
	raceLogOff = int64(len(b))
	return parseRaceReports(text)
}

// sitePkg extracts the package path from "kind in pkg.Func (file:line)".
//
//go:norace
func sitePkg(access string) string {
	i := strings.Index(access, " in ")
	if i < 0 {
		return ""
	}
	fn := access[i+4:]
	if j := strings.Index(fn, " ("); j > 0 {
		fn = fn[:j]
	}
	slash := strings.LastIndex(fn, "/")
	dot := strings.Index(fn[slash+1:], ".")
	if dot < 0 {
		return fn
	}
	return fn[:slash+1+dot]
}
