package sim

import (
	"fmt"
	"os"
	"path/filepath"
	"sort"
	"strings"
)

// Race reports are written by the Go race detector to the file named by
// GORACE=log_path=<prefix> (suffix .<pid>). After every run the new part of
// that file is read and cut into reports; a report counts when both
// conflicting accesses are made by code of the wallet (or its libraries), not
// by the simulator's own bookkeeping.

var raceLogOff int64

//go:norace
func raceLogPath() string {
	for _, kv := range strings.Fields(os.Getenv("GORACE")) {
		if strings.HasPrefix(kv, "log_path=") {
			return strings.TrimPrefix(kv, "log_path=") + fmt.Sprintf(".%d", os.Getpid())
		}
	}
	return ""
}

type raceReport struct {
	Access1, Access2 string // "write masswallet.(*X).f" style
	Text             string
	Harness          bool
}

//go:norace
func parseRaceReports(text string) []raceReport {
	// one pass over the lines (the log of a long run is tens of megabytes of
	// reports about the simulator's own bookkeeping)
	var out []raceReport
	type access struct {
		kind, fn, owner string
	}
	var acc []access
	var cur *access
	var blk []string
	inReport, inAccess := false, false
	flush := func() {
		if inReport && len(acc) >= 2 {
			harness := false
			var keys []string
			for _, a := range acc[:2] {
				if a.owner != "wallet" {
					harness = true
				}
				keys = append(keys, a.kind+" in "+a.fn)
			}
			sort.Strings(keys)
			r := raceReport{Access1: keys[0], Access2: keys[1], Harness: harness}
			if !harness {
				r.Text = strings.Join(blk, "\n")
			}
			out = append(out, r)
		}
		acc, cur, blk, inReport, inAccess = nil, nil, nil, false, false
	}
	lines := strings.Split(text, "\n")
	for li := 0; li < len(lines); li++ {
		l := lines[li]
		if strings.HasPrefix(l, "==================") {
			flush()
			continue
		}
		if strings.HasPrefix(l, "WARNING: DATA RACE") {
			inReport = true
		}
		if !inReport {
			continue
		}
		if len(blk) < 70 {
			blk = append(blk, l)
		}
		if l == "" {
			inAccess = false
			continue
		}
		if l[0] != ' ' {
			// section header
			inAccess = false
			low := strings.ToLower(l)
			for _, k := range []string{"previous atomic write", "previous atomic read", "previous write", "previous read", "atomic write", "atomic read", "write", "read"} {
				if strings.HasPrefix(low, k+" at ") {
					acc = append(acc, access{kind: strings.TrimPrefix(k, "previous "), fn: "?"})
					cur = &acc[len(acc)-1]
					inAccess = true
					break
				}
			}
			continue
		}
		if !inAccess || cur == nil || !strings.HasPrefix(l, "  ") || strings.HasPrefix(l, "      ") {
			continue
		}
		fn := strings.TrimSuffix(strings.TrimSpace(l), "()")
		if strings.HasPrefix(fn, "runtime.") || strings.HasPrefix(fn, "sync/atomic.") || strings.HasPrefix(fn, "internal/") {
			continue
		}
		if cur.fn == "?" {
			loc := ""
			if li+1 < len(lines) {
				f := strings.Fields(lines[li+1])
				if len(f) > 0 {
					loc = filepath.Base(f[0])
				}
			}
			cur.fn = fmt.Sprintf("%s (%s)", strings.TrimPrefix(fn, "massnet.org/mass-wallet/"), loc)
		}
		if cur.owner == "" {
			switch {
			case strings.HasPrefix(fn, "massnet.org/mass-wallet/masswallet/db/ldb.") || strings.HasPrefix(fn, "massnet.org/mass-wallet/masswallet/db."):
				// the store's own code: whoever called it owns the access
			case strings.HasPrefix(fn, "verifsim.") || strings.Contains(fn, ".Sim") || strings.HasPrefix(fn, "testing"):
				cur.owner = "sim"
			case strings.HasPrefix(fn, "massnet.org/mass-wallet/"):
				cur.owner = "wallet"
			}
		}
	}
	flush()
	return out
}

// collectRaces returns the reports added to the race log since the last call.
//
//go:norace
func collectRaces() []raceReport {
	p := raceLogPath()
	if p == "" {
		return nil
	}
	b, err := os.ReadFile(p)
	if err != nil || int64(len(b)) <= raceLogOff {
		return nil
	}
	text := string(b[raceLogOff:])
	raceLogOff = int64(len(b))
	return parseRaceReports(text)
}

// sitePkg extracts the package path from "kind in pkg.Func (file:line)".
//
//go:norace
func sitePkg(access string) string {
	i := strings.Index(access, " in ")
	if i < 0 {
		return ""
	}
	fn := access[i+4:]
	if j := strings.Index(fn, " ("); j > 0 {
		fn = fn[:j]
	}
	slash := strings.LastIndex(fn, "/")
	dot := strings.Index(fn[slash+1:], ".")
	if dot < 0 {
		return fn
	}
	return fn[:slash+1+dot]
}
