package sim

import (
	"bufio"
	"encoding/json"
	"fmt"
	"os"
	"strconv"
	"strings"
	"testing"
	"time"
)

// TestSim is the worker entry point. Environment:
//
//	VERIF_PROP    property id (C01 ...)
//	VERIF_SEEDS   "start:count" seeds to run
//	VERIF_OUT     JSON-lines result file (appended)
//	VERIF_REPLAY  replay file to execute instead of seeds
//	VERIF_PARAMS  k=v,k=v runner parameters
//	VERIF_TRACE   1 to record the full schedule trace
func TestSim(t *testing.T) {
	prop := os.Getenv("VERIF_PROP")
	if prop == "" {
		t.Skip("VERIF_PROP not set")
	}
	params := map[string]int{}
	for _, kv := range strings.Split(os.Getenv("VERIF_PARAMS"), ",") {
		if i := strings.IndexByte(kv, '='); i > 0 {
			v, _ := strconv.Atoi(kv[i+1:])
			params[kv[:i]] = v
		}
	}
	trace := os.Getenv("VERIF_TRACE") == "1"
	defer CleanupGlobal()
	var out *bufio.Writer
	if p := os.Getenv("VERIF_OUT"); p != "" {
		f, err := os.OpenFile(p, os.O_CREATE|os.O_WRONLY|os.O_APPEND, 0o644)
		if err != nil {
			t.Fatal(err)
		}
		defer f.Close()
		out = bufio.NewWriter(f)
		defer out.Flush()
	}
	emit := func(r *Result, keepTapes bool) {
		if !keepTapes && len(r.Violations) == 0 && r.Harness == "" {
			r.Plan, r.Sched, r.Trace, r.Log = nil, nil, nil, nil
		}
		b, _ := json.Marshal(r)
		if out != nil {
			out.Write(b)
			out.WriteByte('\n')
			out.Flush()
		} else {
			fmt.Println(string(b))
		}
	}
	if rp := os.Getenv("VERIF_REPLAY"); rp != "" {
		b, err := os.ReadFile(rp)
		if err != nil {
			t.Fatal(err)
		}
		var r Replay
		if err := json.Unmarshal(b, &r); err != nil {
			t.Fatal(err)
		}
		for k, v := range r.Params {
			if _, ok := params[k]; !ok {
				params[k] = v
			}
		}
		res := RunOne(t, r.Property, r.Seed, r.Plan, r.Sched, true, params, trace)
		emit(res, true)
		return
	}
	start, count := uint64(1), 1
	if s := os.Getenv("VERIF_SEEDS"); s != "" {
		parts := strings.Split(s, ":")
		start, _ = strconv.ParseUint(parts[0], 10, 64)
		if len(parts) > 1 {
			count, _ = strconv.Atoi(parts[1])
		}
	}
	minimize := os.Getenv("VERIF_MINIMIZE") == "1"
	replayDir := os.Getenv("VERIF_REPLAY_DIR")
	minimized := map[string]bool{}
	for i := 0; i < count; i++ {
		seed := start + uint64(i)
		res := RunOne(t, prop, seed, nil, nil, false, params, trace)
		if minimize && replayDir != "" && res.Harness == "" {
			for _, class := range res.Classes() {
				if minimized[class] {
					continue // one replay file per violation class per worker
				}
				minimized[class] = true
				mp, ms, runs := Minimize(t, prop, seed, res.Plan, res.Sched, class, params, 400, 90*time.Second)
				final := RunOne(t, prop, seed, mp, ms, true, params, true)
				detail := ""
				for _, v := range final.Violations {
					if v.Class == class {
						detail = v.Detail
						break
					}
				}
				if detail == "" { // should not happen: fall back to the unminimised run
					mp, ms = res.Plan, res.Sched
					for _, v := range res.Violations {
						if v.Class == class {
							detail = v.Detail
						}
					}
				}
				rp := &Replay{Property: prop, Seed: seed, Plan: mp, Sched: ms, Params: params, Expect: class, Detail: detail,
					Trace: final.Trace, Note: fmt.Sprintf("minimised in %d runs from plan=%d sched=%d choices", runs, len(res.Plan), len(res.Sched))}
				path, err := WriteReplay(replayDir, rp)
				if err == nil {
					if res.Extra == nil {
						res.Extra = map[string]interface{}{}
					}
					res.Extra["replay."+class] = path
				}
			}
		}
		emit(res, os.Getenv("VERIF_KEEP_TAPES") == "1")
	}
}
