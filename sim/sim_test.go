package sim

import (
	"bufio"
	"encoding/json"
	"fmt"
	"os"
	"path/filepath"
	"runtime"
	"strconv"
	"strings"
	"sync/atomic"
	"testing"
	"time"
)

// TestSim is the worker entry point. Environment:
//
//	VERIF_PROP    property id (C01 ...)
//	VERIF_SEEDS   "start:count" seeds to run
//	VERIF_OUT     JSON-lines result file (appended)
//	VERIF_REPLAY  replay file to execute instead of seeds
//	VERIF_PARAMS  k=v,k=v runner parameters
//	VERIF_TRACE   1 to record the full schedule trace
func TestSim(t *testing.T) {
	prop := os.Getenv("VERIF_PROP")
	if prop == "" {
		t.Skip("VERIF_PROP not set")
	}
	params := map[string]int{}
	for _, kv := range strings.Split(os.Getenv("VERIF_PARAMS"), ",") {
		if i := strings.IndexByte(kv, '='); i > 0 {
			v, _ := strconv.Atoi(kv[i+1:])
			params[kv[:i]] = v
		}
	}
	trace := os.Getenv("VERIF_TRACE") == "1"
	defer CleanupGlobal()
	// watchdog: a goroutine of the wallet that waits for a mutex held by a
	// goroutine parked at a gate is invisible to the bubble (a mutex wait is
	// not a durable block) and would hang the worker for ever. That is a
	// limit of the simulator, never a verdict: exit code 2.
	var curSeed atomic.Uint64
	go func() {
		last, since := int64(-1), time.Now()
		limit := 90 * time.Second
		if v, err := strconv.Atoi(os.Getenv("VERIF_WATCHDOG_S")); err == nil && v > 0 {
			limit = time.Duration(v) * time.Second
		}
		for {
			time.Sleep(time.Second)
			if p := Progress.Load(); p != last {
				last, since = p, time.Now()
				continue
			}
			if time.Since(since) > limit {
				buf := make([]byte, 1<<22)
				n := runtime.Stack(buf, true)
				var stuck []string
				for _, g := range strings.Split(string(buf[:n]), "\n\n") {
					if strings.Contains(g, "sync.Mutex.Lock") || strings.Contains(g, "sync.RWMutex") || strings.Contains(g, "[running") || strings.Contains(g, "[runnable") {
						if len(g) > 1800 {
							g = g[:1800]
						}
						stuck = append(stuck, g)
					}
				}
				if hv := HangVerdict(string(buf[:n])); hv != nil {
					if p := os.Getenv("VERIF_OUT"); p != "" {
						if f, err := os.OpenFile(p, os.O_CREATE|os.O_WRONLY|os.O_APPEND, 0o644); err == nil {
							b, _ := json.Marshal(hv)
							f.Write(append(b, '\n'))
							f.Close()
						}
					}
					fmt.Fprintf(os.Stderr, "HANG-VERDICT property=%s seed=%d: %s\n", prop, hv.Seed, hv.Violations[0].Class)
					os.Exit(3)
				}
				fmt.Fprintf(os.Stderr, "HARNESS-HANG property=%s seed=%d: no scheduler step for %v; parked: %s\ngoroutines not parked:\n%s\n", prop, curSeed.Load(), limit, CurrentParked(), strings.Join(stuck, "\n\n"))
				os.Exit(2)
			}
		}
	}()
	var out *bufio.Writer
	if p := os.Getenv("VERIF_OUT"); p != "" {
		f, err := os.OpenFile(p, os.O_CREATE|os.O_WRONLY|os.O_APPEND, 0o644)
		if err != nil {
			t.Fatal(err)
		}
		defer f.Close()
		out = bufio.NewWriter(f)
		defer out.Flush()
	}
	emit := func(r *Result, keepTapes bool) {
		if !keepTapes && len(r.Violations) == 0 && r.Harness == "" {
			r.Plan, r.Sched, r.Trace, r.Log = nil, nil, nil, nil
		}
		b, _ := json.Marshal(r)
		if out != nil {
			out.Write(b)
			out.WriteByte('\n')
			out.Flush()
		} else {
			fmt.Println(string(b))
		}
	}
	if rp := os.Getenv("VERIF_REPLAY"); rp != "" {
		b, err := os.ReadFile(rp)
		if err != nil {
			t.Fatal(err)
		}
		var r Replay
		if err := json.Unmarshal(b, &r); err != nil {
			t.Fatal(err)
		}
		for k, v := range r.Params {
			if _, ok := params[k]; !ok {
				params[k] = v
			}
		}
		res := RunOne(t, r.Property, r.Seed, r.Plan, r.Sched, true, params, trace)
		emit(res, true)
		return
	}
	start, count := uint64(1), 1
	if s := os.Getenv("VERIF_SEEDS"); s != "" {
		parts := strings.Split(s, ":")
		start, _ = strconv.ParseUint(parts[0], 10, 64)
		if len(parts) > 1 {
			count, _ = strconv.Atoi(parts[1])
		}
	}
	minimize := os.Getenv("VERIF_MINIMIZE") == "1"
	replayDir := os.Getenv("VERIF_REPLAY_DIR")
	minimized := map[string]bool{}
	// enumeration: VERIF_ENUM="param:countkey[:max]" runs, for every seed, a
	// fault-free twin and then one run per fault position 1..twin.Extra[countkey]
	type enumSpec struct {
		param, key string
		max        int
		extraK     string
		extraV     int
	}
	var enums []enumSpec
	if e := os.Getenv("VERIF_ENUM"); e != "" {
		for _, one := range strings.Split(e, ",") {
			parts := strings.Split(one, ":")
			es := enumSpec{param: parts[0], key: parts[1], max: 100000}
			if len(parts) > 2 {
				es.max, _ = strconv.Atoi(parts[2])
			}
			if len(parts) > 3 {
				if i := strings.IndexByte(parts[3], '='); i > 0 {
					es.extraK = parts[3][:i]
					es.extraV, _ = strconv.Atoi(parts[3][i+1:])
				}
			}
			enums = append(enums, es)
		}
	}
	type job struct {
		seed   uint64
		plan   []int
		sched  []int
		mode   int
		params map[string]int
	}
	var queue []job
	for i := 0; i < count; i++ {
		queue = append(queue, job{seed: start + uint64(i), mode: ModeGen, params: params})
	}
	for len(queue) > 0 {
		j := queue[0]
		queue = queue[1:]
		seed := j.seed
		params := j.params
		curSeed.Store(seed)
		Progress.Add(1)
		res := RunOneMode(t, prop, seed, j.plan, j.sched, j.mode, params, trace)
		if res.Extra == nil {
			res.Extra = map[string]interface{}{}
		}
		res.Extra["params"] = params
		if len(enums) > 0 && j.mode == ModeGen && res.Harness == "" && len(res.Violations) == 0 {
			if res.Stats == nil {
				res.Stats = map[string]int{}
			}
			res.Stats["enum.histories"] = 1
			for _, es := range enums {
				n := 0
				if v, ok := res.Extra[es.key].(int); ok {
					n = v
				}
				if n > es.max {
					n = es.max
				}
				res.Stats["enum.positions."+es.param+es.extraK] = n
				res.Stats["enum.positions"] += n
				for k := 1; k <= n; k++ {
					p2 := map[string]int{}
					for a, b := range params {
						p2[a] = b
					}
					p2[es.param] = k
					if es.extraK != "" {
						p2[es.extraK] = es.extraV
					}
					if m := params[es.param+"2max"]; m > 0 {
						p2[es.param+"2"] = (k * 7919) % (m + 1)
					}
					queue = append(queue, job{seed: seed, plan: res.Plan, sched: res.Sched, mode: ModeExtend, params: p2})
				}
			}
		}
		if minimize && replayDir != "" && res.Harness == "" {
			for _, class := range res.Classes() {
				if strings.HasSuffix(class, ".data-race") {
					// the race detector reports a pair of stacks once per process:
					// re-running in this process cannot show it again. The driver
					// writes the unminimised tapes and replays them in a fresh process.
					continue
				}
				if minimized[class] || strings.Contains(","+os.Getenv("VERIF_KNOWN_CLASSES")+",", ","+class+",") {
					continue // one replay file per violation class per worker; none for listed findings
				}
				minimized[class] = true
				// another worker may already have produced a replay for this class
				if m, _ := filepath.Glob(filepath.Join(replayDir, prop+"-seed*-"+sanitize(class)+".json")); len(m) > 0 {
					if res.Extra == nil {
						res.Extra = map[string]interface{}{}
					}
					res.Extra["replay."+class] = m[0]
					continue
				}
				mp, ms, runs := Minimize(t, prop, seed, res.Plan, res.Sched, class, params, 900, 120*time.Second)
				final := RunOne(t, prop, seed, mp, ms, true, params, true)
				detail := ""
				for _, v := range final.Violations {
					if v.Class == class {
						detail = v.Detail
						break
					}
				}
				if detail == "" { // should not happen: fall back to the unminimised run
					mp, ms = res.Plan, res.Sched
					for _, v := range res.Violations {
						if v.Class == class {
							detail = v.Detail
						}
					}
				}
				rp := &Replay{Property: prop, Seed: seed, Plan: mp, Sched: ms, Params: params, Expect: class, Detail: detail,
					Trace: final.Trace, Note: fmt.Sprintf("minimised in %d runs from plan=%d sched=%d choices", runs, len(res.Plan), len(res.Sched))}
				path, err := WriteReplay(replayDir, rp)
				if err == nil {
					if res.Extra == nil {
						res.Extra = map[string]interface{}{}
					}
					res.Extra["replay."+class] = path
				}
			}
		}
		emit(res, os.Getenv("VERIF_KEEP_TAPES") == "1")
	}
}
