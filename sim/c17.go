package sim

import (
	"fmt"
	"sort"
	"strings"

	"github.com/massnetorg/mass-core/massutil"
	"github.com/massnetorg/mass-core/wire"
	"massnet.org/mass-wallet/api"
	"massnet.org/mass-wallet/masswallet"
)

//go:norace
func init() { Runners["C17"] = runC17 }

// chainTo returns the chain from genesis to b.
//
//go:norace
func chainTo(b *BlockRec) []*BlockRec {
	var rev []*BlockRec
	for x := b; x != nil; x = x.Parent {
		rev = append(rev, x)
	}
	out := make([]*BlockRec, len(rev))
	for i, x := range rev {
		out[len(rev)-1-i] = x
	}
	return out
}

// runC17 (schedule part): a query goroutine parks before every read of its
// read-only database transactions; between any two of its reads the schedule
// may let the notification handler commit one or more blocks (connects and
// the steps of a reorganisation). Every database state that existed between
// the start and the end of the query is recorded (the wallet's synced block
// after every commit); the answer must equal what the reference ledger shows
// at ONE of those blocks.
//
//go:norace
func runC17(w *World, p map[string]int) {
	w.PostCommitGates = true
	if param(p, "mode", 0) == 1 {
		runC17Race(w, p)
		return
	}
	if param(p, "mode", 0) == 2 {
		runC17Probe(w, p)
		return
	}
	// modes 3..6: the workloads of other properties (shutdown placement,
	// restore while the chain moves, removal, crash-free histories) executed
	// under the race-detector build; their own oracles stay on
	if r := map[int]string{3: "C20", 4: "C07", 5: "C08", 6: "C01"}[param(p, "mode", 0)]; r != "" {
		Runners[r](w, p)
		return
	}
	t := w.Plan
	k := drawKnobs(w)
	k.GapLimit = 20
	k.NodeGates = false
	w.SetKnobs(k)
	inst := w.NewInstance("A")
	if err := inst.Open(); err != nil {
		w.Violate("C17.harness", "%v", err)
		return
	}
	if err := setupWallets(w, inst, 1+t.Int(2)); err != nil {
		w.Violate("C17.setup", "%v", err)
		return
	}
	if err := inst.StartSolo(); err != nil {
		w.Violate("C17.start", "Start: %v", err)
		return
	}
	inst.DB.PostCommitGate = true
	pre := 4 + t.Int(param(p, "pre", 18))
	for i := 0; i < pre; i++ {
		if t.Bool(12) {
			w.Fork(t, 1+t.Int(2), 1, 50, 1)
		} else {
			w.MineOnTip(t, 100)
		}
		w.runSteps(t.Int(8))
	}
	if !quiesceAll(w, "C17", 30000) {
		return
	}
	ids := inst.SortedWalletIDs()
	// every commit while a query is active adds a boundary
	var bounds []wire.Hash
	active := false
	record := func() {
		_, h, err := inst.WM.SimSyncedTip()
		if err != nil {
			return
		}
		if n := len(bounds); n == 0 || bounds[n-1] != h {
			bounds = append(bounds, h)
		}
	}
	inst.DB.OnCommit = func(int) {
		if active {
			record()
		}
	}
	rounds := 1 + t.Int(param(p, "rounds", 5))
	for r := 0; r < rounds && len(w.Violations) == 0; r++ {
		ws := inst.Wallets[ids[t.Int(len(ids))]]
		if _, err := inst.Use(ws.ID, true); err != nil {
			w.Violate("C17.harness", "UseWallet: %v", err)
			return
		}
		own, addrOf, addrs := w.owned(ws)
		// chain events the handler has not seen yet
		nev := 1 + t.Int(4)
		for i := 0; i < nev; i++ {
			if t.Bool(25) {
				w.Fork(t, 1+t.Int(3), 1+t.Int(2), 60, 0)
				w.Stat("probe.reorg_queued")
			} else {
				w.MineOnTip(t, 100)
			}
		}
		kind := t.Weighted([]int{4, 3, 3, 3, 1})
		names := []string{"WalletBalance", "AddressBalance", "GetUtxo", "AutoCreateRawTransaction", "UseWallet"}
		var wb *masswallet.WalletBalance
		var ab []*masswallet.AddressBalance
		var ux map[string][]*masswallet.UnspentDetail
		var wi *masswallet.WalletInfo
		var hexTx string
		var qerr error
		var target int64
		bounds = bounds[:0]
		record()
		active = true
		g := inst.Call(RoleClient, "query."+names[kind], func() {
			switch kind {
			case 0:
				wb, qerr = inst.WM.WalletBalance(1, true)
			case 1:
				ab, qerr = inst.WM.AddressBalance(1, nil)
			case 2:
				ux, qerr = inst.WM.GetUtxo(nil)
			case 3:
				dest := w.Gen.addrString(w.Gen.Parties[0].Hashes[0])
				a, _ := massutil.NewAmountFromInt(target)
				hexTx, _, qerr = inst.WM.AutoCreateRawTransaction(map[string]massutil.Amount{dest: a}, 0, massutil.ZeroAmount(), "", "", nil)
			case 4:
				wi, qerr = inst.WM.UseWallet(ws.ID)
			}
		})
		if kind == 3 {
			// ask for most of what the start state can spend, so that the
			// selection has to look at many coins
			l0 := ComputeLedger(chainTo(w.Node.BlockByHash(bounds[0])), own)
			var sp int64
			for _, c := range l0.Coins {
				if c.Class == ClassStd && c.SpendableAt(l0.Tip) {
					sp += c.Amount
				}
			}
			target = sp * int64(30+t.Int(60)) / 100
			if target < 1000000 {
				target = 1000000
			}
		}
		g.gateReads = true
		placed := 0
		for i := 0; i < stepBudget && !g.done; i++ {
			en := w.S.Enabled()
			if len(en) == 0 {
				break
			}
			var mine, others []Action
			for _, a := range en {
				if a.G == g {
					mine = append(mine, a)
				} else {
					others = append(others, a)
				}
			}
			before := len(bounds)
			if len(mine) > 0 && (len(others) == 0 || w.S.Tape.Bool(55)) {
				w.S.Do(mine[0])
			} else if len(others) > 0 {
				w.S.Do(others[w.S.Tape.Int(len(others))])
			}
			if len(bounds) > before {
				placed++
			}
		}
		active = false
		if !g.done {
			w.Violate("C17.stall", "%s did not finish: %v", names[kind], w.S.ParkedSummary())
			return
		}
		if len(w.S.Panics) > 0 {
			w.Violate("C17.panic", "%s", firstLines(w.S.Panics[0], 30))
			return
		}
		w.Stat("op.query")
		w.Stat("query." + names[kind])
		if placed > 0 {
			w.Stat("probe.commit_between_reads")
			if placed > 1 {
				w.Stat("probe.several_commits_between_reads")
			}
		}
		if qerr != nil {
			w.Stat("probe.query_refused")
			if !quiesceAll(w, "C17", 30000) {
				return
			}
			continue
		}
		// ---- oracle ----
		var diffs []string
		matched := -1
		for bi, h := range bounds {
			b := w.Node.BlockByHash(h)
			if b == nil {
				w.Violate("C17.harness", "boundary block %s unknown to the node", h)
				return
			}
			l := ComputeLedger(chainTo(b), own)
			want := l.ModelObs(ws.ID, addrOf, addrs)
			got := *want
			d := ""
			switch kind {
			case 0:
				got.Bal = ObsBal{Total: amt(wb.Total), Spendable: amt(wb.Spendable), WStaking: amt(wb.WithdrawableStaking), WBinding: amt(wb.WithdrawableBinding)}
				got.Gross = got.Bal.Total
				d = DiffObs(&got, want)
			case 1:
				got.AddrBal = nil
				for _, x := range ab {
					got.AddrBal = append(got.AddrBal, ObsBal{Addr: x.Address, Total: amt(x.Total), Spendable: amt(x.Spendable), WStaking: amt(x.WithdrawableStaking), WBinding: amt(x.WithdrawableBinding)})
				}
				sortObs(&got)
				d = DiffObs(&got, want)
			case 2:
				got.Utxos = nil
				for addr, list := range ux {
					for _, u := range list {
						got.Utxos = append(got.Utxos, ObsUtxo{Addr: addr, TxID: u.TxId, Vout: u.Vout, Amount: amt(u.Amount), Height: u.BlockHeight})
					}
				}
				sortObs(&got)
				d = DiffObs(&got, want)
			case 3:
				tx, derr := decodeTxHex(hexTx)
				if derr != nil {
					w.Violate("C17.undecodable", "%v", derr)
					return
				}
				coins := map[wire.OutPoint]*Coin{}
				for _, c := range l.Coins {
					coins[c.Op] = c
				}
				seen := map[wire.OutPoint]bool{}
				for _, in := range tx.TxIn {
					c := coins[in.PreviousOutPoint]
					switch {
					case seen[in.PreviousOutPoint]:
						d += fmt.Sprintf("input %v used twice; ", in.PreviousOutPoint)
					case c == nil:
						d += fmt.Sprintf("input %s:%d is not an unspent coin of the wallet; ", in.PreviousOutPoint.Hash.String()[:8], in.PreviousOutPoint.Index)
					case c.Class != ClassStd:
						d += fmt.Sprintf("input %s:%d is a staking/binding coin; ", in.PreviousOutPoint.Hash.String()[:8], in.PreviousOutPoint.Index)
					case !c.SpendableAt(l.Tip):
						d += fmt.Sprintf("input %s:%d (height %d, coinbase=%v) is not mature at tip %d; ", in.PreviousOutPoint.Hash.String()[:8], in.PreviousOutPoint.Index, c.Height, c.Coinbase, l.Tip)
					}
					seen[in.PreviousOutPoint] = true
				}
			case 4:
				got.Gross = amt(wi.TotalBalance)
				got.Bal.Total = got.Gross
				d = DiffObs(&got, want)
			}
			if d == "" {
				matched = bi
				break
			}
			diffs = append(diffs, fmt.Sprintf("[vs block %d %s: %s]", b.Height, h.String()[:8], d))
		}
		if kind == 3 {
			// release the reservation so that later rounds see the coins again
			if tx, err := decodeTxHex(hexTx); err == nil {
				inst.WM.ClearUsedUTXOMark(tx)
			}
		}
		if matched < 0 {
			cls := "C17.mixed-states"
			if placed == 0 {
				cls = "C17.not-a-block-boundary"
			}
			if len(diffs) > 4 {
				diffs = append(diffs[:2], diffs[len(diffs)-2:]...)
			}
			w.Violate(cls, "%s answered with a result that matches none of the %d block boundaries the store went through while it ran (%d commits landed between its reads): %s",
				names[kind], len(bounds), placed, strings.Join(diffs, " "))
			return
		}
		w.Stat("check.query_matches_a_boundary")
		if placed > 0 {
			w.Stat("check.query_matches_a_boundary.raced")
		}
		if !quiesceAll(w, "C17", 30000) {
			return
		}
	}
	if len(w.Violations) > 0 {
		return
	}
	inst.DB.OnCommit = nil
	w.CheckLedger(inst, "C17")
	w.Sample = fmt.Sprintf("C17 rounds=%d height=%d queries=%d raced=%d", rounds, w.Node.Tip().Height, w.Stats["op.query"], w.Stats["probe.commit_between_reads"])
}

// runC17Race (memory part): several API clients, the notification handler and
// the background worker (imports, removals) are interleaved by the schedule
// tape while the binary is built with the Go race detector. The simulator's
// own hand-offs are hidden from the detector (racehooks_race.go), so two
// accesses of wallet memory count as ordered only if the wallet's own
// synchronisation orders them; the detector then reports unordered pairs for
// the executed schedule whether or not they were simultaneous in real time.
// Without the race detector this runner still checks for panics and stalls.
//
//go:norace
func runC17Race(w *World, p map[string]int) {
	t := w.Plan
	k := drawKnobs(w)
	k.GapLimit = uint32(3 + t.Int(18))
	k.NodeGates = t.Bool(50)
	w.SetKnobs(k)
	inst := w.NewInstance("A")
	if err := inst.Open(); err != nil {
		w.Violate("C17.harness", "%v", err)
		return
	}
	if err := setupWallets(w, inst, 2+t.Int(2)); err != nil {
		w.Violate("C17.setup", "%v", err)
		return
	}
	if err := inst.StartSolo(); err != nil {
		w.Violate("C17.start", "Start: %v", err)
		return
	}
	srv, err := api.NewAPIServer(inst.srv, inst.WM, func() {}, inst.Cfg)
	if err != nil {
		w.Violate("C17.harness", "NewAPIServer: %v", err)
		return
	}
	w.S.WorkBudget = 60000
	f := &fz{w: w, inst: inst, srv: srv, t: t}
	for _, id := range inst.SortedWalletIDs() {
		ws := inst.Wallets[id]
		f.pass = append(f.pass, ws.Pass)
		f.mnemonics = append(f.mnemonics, ws.Mnemonic)
	}
	calls := f.calls()
	weights := make([]int, len(calls))
	for i, c := range calls {
		weights[i] = c.weight
	}
	pre := 2 + t.Int(param(p, "pre", 12))
	for i := 0; i < pre; i++ {
		w.MineOnTip(t, 75)
		w.runSteps(t.Int(8))
	}
	rounds := 2 + t.Int(param(p, "rounds", 8))
	for r := 0; r < rounds && len(w.Violations) == 0; r++ {
		// chain events the followers have not seen yet; what matters to the
		// detector is which pairs of code paths run without the wallet's own
		// synchronisation between them, so every round pairs one request
		// (methods drawn uniformly) with fresh follower work of every kind
		for i, n := 0, 1+t.Int(3); i < n; i++ {
			switch t.Weighted([]int{5, 2, 5}) {
			case 0:
				w.MineOnTip(t, 70)
			case 1:
				w.Fork(t, 1+t.Int(3), 1+t.Int(2), 50, 0)
			case 2:
				w.AnnounceLoose(t)
			}
		}
		nc := 1 // see DESIGN 11.5: one client in flight at a time
		var gs []*G
		var names []string
		np := len(w.S.Panics)
		ns := len(w.S.Stalls)
		for c := 0; c < nc; c++ {
			f.mis = []int{0, 0, 0, 8}[t.Int(4)]
			call := calls[t.Int(len(calls))]
			if t.Bool(40) {
				call = calls[t.Weighted(weights)]
			}
			_, fn := call.make(f)
			g := inst.Call(RoleClient, "api."+call.name, func() { fn() })
			g.gateReads = t.Bool(50)
			gs = append(gs, g)
			names = append(names, call.name)
			w.Stat("op.request")
			w.Stat("request." + call.name)
		}
		w.Stat("probe.concurrent_clients")
		alive := func() bool {
			for _, g := range gs {
				if !g.done {
					return true
				}
			}
			return false
		}
		nested := false
		for i := 0; i < stepBudget && alive(); i++ {
			en := w.S.Enabled()
			if len(en) == 0 {
				break
			}
			// a second request inside the first one: while the first is parked
			// between two of its database reads (it holds no wallet-internal
			// mutex there, see walletMutexHeld; at most the manager's read
			// lock), a request that takes no write lock of the manager runs to
			// completion. Key material the first one has unlocked, caches it
			// has filled, are then met by another request's code.
			// (both requests must be of the kind that takes at most the manager's
			// read lock: a writer would wait for the parked reader, invisibly)
			readSide := func(n string) bool {
				switch n {
				case "Wallets", "ExportWallet", "GetWalletMnemonic", "GetWalletBalance", "GetAddressBalance", "GetUtxo", "GetAddresses",
					"AutoCreateTransaction", "CreateStakingTransaction", "CreateBindingTransaction", "SignRawTransaction",
					"GetTransactionFee", "TxHistory", "GetStakingHistory", "GetBindingHistory", "ValidateAddress":
					return true
				}
				return false
			}
			if !nested && readSide(names[0]) && strings.HasPrefix(gs[0].parked, "db.read") && w.S.Tape.Bool(10) {
				nested = true
				var second []apiCall
				for _, c := range calls {
					if readSide(c.name) {
						second = append(second, c)
					}
				}
				if len(second) > 0 {
					f.mis = []int{0, 0, 0, 8}[w.S.Tape.Int(4)]
					c2 := second[w.S.Tape.Int(len(second))]
					_, fn2 := c2.make(f)
					g2 := inst.Call(RoleClient, "api."+c2.name+"(inside "+names[0]+")", func() { fn2() })
					if !w.S.RunSolo(g2, stepBudget) {
						w.Violate("C17.stall", "request %s issued while %s was between two of its reads did not return: %v", c2.name, names[0], w.S.ParkedSummary())
						return
					}
					w.Stat("probe.request_inside_request")
					continue
				}
			}
			// while the request sits inside a database transaction or between
			// two of its reads, the followers get most of the steps
			var mine, others []Action
			for _, a := range en {
				if a.G == gs[0] {
					mine = append(mine, a)
				} else {
					others = append(others, a)
				}
			}
			inside := len(mine) > 0 && (strings.HasPrefix(gs[0].parked, "db.commit") || strings.HasPrefix(gs[0].parked, "db.read"))
			switch {
			case len(others) > 0 && (len(mine) == 0 || (inside && w.S.Tape.Bool(70))):
				w.S.Do(others[w.S.Tape.Int(len(others))])
				if inside {
					w.Stat("probe.follower_step_inside_request")
				}
			default:
				w.S.Do(en[w.S.Tape.Int(len(en))])
			}
		}
		if len(w.S.Stalls) > ns {
			// the known unbounded-work request; not this check's subject
			w.Stat("probe.request_over_work_budget")
			return
		}
		if len(w.S.Panics) > np {
			w.Violate("C17.panic", "concurrent requests %v: %s", names, firstLines(w.S.Panics[np], 30))
			return
		}
		if alive() {
			w.Violate("C17.stall", "concurrent requests %v did not all return: %v", names, w.S.ParkedSummary())
			return
		}
		w.runSteps(t.Int(10))
	}
	if len(w.Violations) > 0 {
		return
	}
	// keystore burst: requests that work on the selected wallet's key material
	// (sign, reveal, export, passphrase check of a removal, new address, select)
	// one after the other on goroutines of their own. The detector orders two
	// requests only through the wallet's own locks, so a pair of such code paths
	// that shares no lock is reported without any overlap in time.
	if param(p, "mode", 0) == 1 {
		var ks []apiCall
		for _, c := range calls {
			switch c.name {
			case "SignRawTransaction", "GetWalletMnemonic", "ExportWallet", "RemoveWallet", "CreateAddress", "UseWallet":
				ks = append(ks, c)
				if c.name == "SignRawTransaction" {
					ks = append(ks, c, c)
				}
			}
		}
		np := len(w.S.Panics)
		for i, n := 0, 4+t.Int(5); i < n && len(ks) > 0 && len(w.Violations) == 0; i++ {
			f.mis = []int{0, 0, 0, 8}[t.Int(4)]
			call := ks[t.Int(len(ks))]
			_, fn := call.make(f)
			g := inst.Call(RoleClient, "api."+call.name, func() { fn() })
			if !w.S.RunUntilDone(g, stepBudget) {
				break
			}
			w.Stat("request.keystore_burst." + call.name)
		}
		if len(w.S.Panics) > np {
			w.Violate("C17.panic", "keystore burst: %s", firstLines(w.S.Panics[np], 30))
			return
		}
	}
	if !quiesceAll(w, "C17", 60000) {
		return
	}
	// signing while key-material requests arrive: a multi-input signing request
	// is parked between two of its database reads (after it has unlocked the
	// keystore for an earlier input) and reveal / export / passphrase check
	// run to completion inside it
	if param(p, "mode", 0) == 1 && t.Bool(35) {
		signingWithKeyRequests(w, inst, t)
		if len(w.Violations) > 0 {
			return
		}
	}
	w.Stat("check.c17_concurrent_run")
	w.Sample = fmt.Sprintf("C17 race-mode rounds=%d height=%d race-detector=%v", rounds, w.Node.Tip().Height, raceBuild)
}

// signingWithKeyRequests: see the call site.
//
//go:norace
func signingWithKeyRequests(w *World, inst *Instance, t *Tape) {
	// (the fuzzed requests before may have created, imported or removed
	// wallets: only wallets the harness set up itself and that still answer)
	var ids []string
	for _, id := range liveWallets(inst) {
		if inst.Wallets[id].HD != nil && len(inst.Wallets[id].Issued) > 0 {
			ids = append(ids, id)
		}
	}
	if len(ids) == 0 || !w.AllDelivered() {
		return
	}
	ws := inst.Wallets[ids[t.Int(len(ids))]]
	if _, err := inst.Use(ws.ID, true); err != nil {
		return
	}
	own, _, _ := w.owned(ws)
	l := ComputeLedger(w.Node.BestChain(), own)
	var pool []*Coin
	for _, c := range l.Coins {
		if c.Class == ClassStd && !c.Coinbase && c.SpendableAt(l.Tip) && c.Amount >= 200000 {
			pool = append(pool, c)
		}
	}
	sort.Slice(pool, func(i, j int) bool { return pool[i].Op.String() < pool[j].Op.String() })
	if len(pool) < 2 {
		return
	}
	if len(pool) > 4 {
		pool = pool[:4]
	}
	tx := wire.NewMsgTx()
	var sum int64
	for _, c := range pool {
		op := c.Op
		tx.AddTxIn(wire.NewTxIn(&op, nil))
		sum += c.Amount
	}
	tx.AddTxOut(wire.NewTxOut(sum-100000, stdScript(pool[0].Holder)))
	var signErr error
	g := inst.Call(RoleClient, "SignRawTx(multi-input)", func() { _, signErr = inst.WM.SignRawTx([]byte(ws.Pass), "ALL", tx) })
	g.gateReads = true
	at := 2 + t.Int(8) // the how-manieth park between reads the other requests arrive at
	parks := 0
	done := false
	for i := 0; i < stepBudget && !g.done; i++ {
		if !done && strings.HasPrefix(g.parked, "db.read") {
			parks++
			if parks == at {
				done = true
				for k, n := 0, 1+t.Int(3); k < n; k++ {
					var g2 *G
					switch t.Int(3) {
					case 0:
						g2 = inst.Call(RoleClient, "GetMnemonic(inside signing)", func() { inst.WM.GetMnemonic(ws.ID, ws.Pass) })
					case 1:
						g2 = inst.Call(RoleClient, "ExportWallet(inside signing)", func() { inst.WM.ExportWallet(ws.ID, ws.Pass) })
					default:
						g2 = inst.Call(RoleClient, "CheckPrivPassphrase(inside signing)", func() {
							inst.WM.SimKeystoreManager().CheckPrivPassphrase(ws.ID, []byte("wrongPass77"))
						})
					}
					if !w.S.RunSolo(g2, stepBudget) {
						w.Violate("C17.stall", "key-material request inside a signing request did not return: %v", w.S.ParkedSummary())
						return
					}
				}
				w.Stat("probe.key_requests_inside_signing")
			}
		}
		if !w.S.SoloStep(g) {
			break
		}
	}
	if !g.done {
		w.Violate("C17.stall", "multi-input signing did not return: %v", w.S.ParkedSummary())
		return
	}
	if signErr != nil {
		// refused although passphrase and inputs are right: what the other
		// requests did to the keystore got in its way
		w.Violate("C17.sign-disturbed", "SignRawTx over %d own coins with the right passphrase failed while reveal/export/check requests ran inside it: %v", len(pool), signErr)
	}
}

// runC17Probe (params mode=2) is a fixed scenario used to test the race mode
// itself: an address request is parked before its commit while the handler
// processes an unconfirmed transaction.
//
//go:norace
func runC17Probe(w *World, p map[string]int) {
	t := w.Plan
	k := drawKnobs(w)
	k.GapLimit = 20
	k.NodeGates = false
	w.SetKnobs(k)
	inst := w.NewInstance("A")
	if err := inst.Open(); err != nil {
		w.Violate("C17.harness", "%v", err)
		return
	}
	if err := setupWallets(w, inst, 2); err != nil {
		w.Violate("C17.setup", "%v", err)
		return
	}
	if err := inst.StartSolo(); err != nil {
		w.Violate("C17.start", "%v", err)
		return
	}
	for i := 0; i < 8; i++ {
		w.MineOnTip(t, 100)
	}
	if !quiesceAll(w, "C17", 30000) {
		return
	}
	tx := w.AnnounceLoose(t)
	if tx == nil {
		w.Stat("probe.no_loose_tx")
		return
	}
	var err error
	g := inst.Call(RoleClient, "NewAddress", func() { _, err = inst.WM.NewAddress(0) })
	for i := 0; i < 200 && !g.done && g.parked != "db.commit"; i++ {
		w.S.Do(Action{g, "run"})
	}
	w.Logf("client parked at %q", g.parked)
	w.Stats["probe.client_at_commit"] += b2i(g.parked == "db.commit")
	if param(p, "second", 0) == 1 {
		sh := make([]byte, 32)
		g2 := inst.Call(RoleClient, "lookup", func() { inst.WM.SimKeystoreManager().GetManagedAddressByScriptHash(sh) })
		w.S.RunSolo(g2, 100)
		w.Stat("probe.second_client_lookup")
	}
	// the handler takes the unconfirmed transaction now
	for i := 0; i < 50; i++ {
		var hs []Action
		for _, a := range w.S.Enabled() {
			if a.G != g {
				hs = append(hs, a)
			}
		}
		if len(hs) == 0 {
			break
		}
		w.S.Do(hs[0])
		w.Stat("probe.handler_steps")
	}
	w.S.RunSolo(g, 1000)
	w.Stats["probe.newaddress_failed"] += b2i(err != nil)
	w.Logf("NewAddress err=%v recent=%q", err, w.RecentErrors(3))
	quiesceAll(w, "C17", 30000)
}

func b2i(b bool) int {
	if b {
		return 1
	}
	return 0
}
