package sim

import (
	"errors"
	"fmt"
	"sort"

	"github.com/massnetorg/mass-core/massutil"
	"github.com/massnetorg/mass-core/wire"
	"massnet.org/mass-wallet/masswallet"
)

const stepBudget = 1 << 20

// ErrCrashed is returned by API helpers when the instance died (crash
// injection) before the call returned: the caller got no acknowledgement.
var ErrCrashed = errors.New("sim: the instance crashed before the call returned")

//go:norace
func (inst *Instance) unfinished(what string) error {
	if inst.Dead || inst.W.S.CrashRequested {
		return ErrCrashed
	}
	return fmt.Errorf("%s did not finish: %v", what, inst.W.S.ParkedSummary())
}

// RunCall runs fn as an API client of inst. solo=true runs it without
// interleaving other goroutines (except to free the writer lock); otherwise
// the schedule tape decides. It reports whether the call finished.
//
//go:norace
func (inst *Instance) RunCall(name string, solo bool, fn func()) bool {
	g := inst.Call(RoleClient, name, fn)
	var ok bool
	if solo {
		ok = inst.W.S.RunSolo(g, stepBudget)
	} else {
		ok = inst.W.S.RunUntilDone(g, stepBudget)
	}
	return ok
}

// CreateWallet creates a wallet through the API and registers it with the
// harness (independent derivation from the returned mnemonic).
//
//go:norace
func (inst *Instance) CreateWallet(pass string, bits int, solo bool) (*WalletState, error) {
	var id, mn string
	var err error
	if !inst.RunCall("CreateWallet", solo, func() { id, mn, _, err = inst.WM.CreateWallet(pass, "r", bits) }) {
		return nil, inst.unfinished("CreateWallet")
	}
	if err != nil {
		return nil, err
	}
	hd, herr := NewHDWallet(mn, pass, inst.W.Params.HDCoinType, id)
	if herr != nil {
		return nil, herr
	}
	if hd.NonStandard {
		inst.W.Stat("hd.btcd_compat_derivation")
	}
	ws := &WalletState{ID: id, Mnemonic: mn, Pass: pass, HD: hd}
	inst.Wallets[id] = ws
	if hd.ID != id {
		inst.W.Violate("C04.id-mismatch", "wallet id %s but independent derivation gives %s", id, hd.ID)
	}
	return ws, nil
}

// Use selects a wallet.
//
//go:norace
func (inst *Instance) Use(id string, solo bool) (*masswallet.WalletInfo, error) {
	var wi *masswallet.WalletInfo
	var err error
	if !inst.RunCall("UseWallet", solo, func() { wi, err = inst.WM.UseWallet(id) }) {
		return nil, inst.unfinished("UseWallet")
	}
	if err == nil {
		inst.Current = id
	}
	return wi, err
}

// NewAddress requests a new address of the given class for the current wallet.
//
//go:norace
func (inst *Instance) NewAddress(staking bool, solo bool) (string, error) {
	cls := massutil.AddressClassWitnessV0
	if staking {
		cls = massutil.AddressClassWitnessStaking
	}
	var addr string
	var err error
	if !inst.RunCall("NewAddress", solo, func() { addr, err = inst.WM.NewAddress(uint16(cls)) }) {
		return "", inst.unfinished("NewAddress")
	}
	if err != nil {
		return "", err
	}
	ws := inst.Wallets[inst.Current]
	if ws != nil {
		idx := uint32(0)
		if n := len(ws.Issued); n > 0 {
			idx = ws.Issued[n-1].Index + 1
		}
		ws.Issued = append(ws.Issued, IssuedAddr{Index: idx, Staking: staking, Addr: addr})
		inst.W.Gen.AddWalletParty(ws)
	}
	return addr, nil
}

// owned returns the holder hashes and address strings of a wallet's issued
// addresses according to the independent derivation.
//
//go:norace
func (w *World) owned(ws *WalletState) (map[[32]byte]bool, map[[32]byte]string, []string) {
	own := map[[32]byte]bool{}
	addrOf := map[[32]byte]string{}
	var addrs []string
	for _, ia := range ws.Issued {
		a := ws.HD.Addr(ia.Index)
		var h [32]byte
		copy(h[:], a.ScriptHash)
		if own[h] {
			continue
		}
		own[h] = true
		s := w.Gen.addrString(h)
		addrOf[h] = s
		addrs = append(addrs, s)
	}
	return own, addrOf, addrs
}

//go:norace
func amt(a massutil.Amount) int64 { return a.IntValue() }

// Observe renders what the API shows for wallet id (selecting it first). It
// must be called at a quiescent point; calls run solo.
//
//go:norace
func (inst *Instance) Observe(id string) (*Obs, error) {
	wi, err := inst.Use(id, true)
	if err != nil {
		return nil, fmt.Errorf("UseWallet(%s): %w", id, err)
	}
	o := &Obs{WalletID: id, Gross: amt(wi.TotalBalance)}
	var wb *masswallet.WalletBalance
	var ab []*masswallet.AddressBalance
	var ux map[string][]*masswallet.UnspentDetail
	var synced uint64
	var e1, e2, e3, e4 error
	ok := inst.RunCall("Observe", true, func() {
		wb, e1 = inst.WM.WalletBalance(1, true)
		ab, e2 = inst.WM.AddressBalance(1, nil)
		ux, e3 = inst.WM.GetUtxo(nil)
		synced, e4 = inst.WM.SyncedTo()
	})
	if !ok {
		return nil, inst.unfinished("observation calls")
	}
	for _, e := range []error{e1, e2, e3, e4} {
		if e != nil {
			return nil, e
		}
	}
	o.SyncedTo = synced
	o.Bal = ObsBal{Total: amt(wb.Total), Spendable: amt(wb.Spendable), WStaking: amt(wb.WithdrawableStaking), WBinding: amt(wb.WithdrawableBinding)}
	if o.Gross != o.Bal.Total {
		inst.W.Violate("C01.total-mismatch", "UseWallet total %d != WalletBalance total %d", o.Gross, o.Bal.Total)
	}
	for _, b := range ab {
		o.AddrBal = append(o.AddrBal, ObsBal{Addr: b.Address, Total: amt(b.Total), Spendable: amt(b.Spendable),
			WStaking: amt(b.WithdrawableStaking), WBinding: amt(b.WithdrawableBinding)})
	}
	for addr, list := range ux {
		for _, u := range list {
			o.Utxos = append(o.Utxos, ObsUtxo{Addr: addr, TxID: u.TxId, Vout: u.Vout, Amount: amt(u.Amount), Height: u.BlockHeight})
		}
	}
	sortObs(o)
	return o, nil
}

// DiffObs returns a description of the first differences between the
// wallet's observation and the model's, or "".
//
//go:norace
func DiffObs(got, want *Obs) string {
	var d []string
	if got.SyncedTo != want.SyncedTo {
		d = append(d, fmt.Sprintf("syncedTo got %d want %d", got.SyncedTo, want.SyncedTo))
	}
	if got.Gross != want.Gross {
		d = append(d, fmt.Sprintf("total balance got %d want %d", got.Gross, want.Gross))
	}
	if got.Bal != want.Bal {
		d = append(d, fmt.Sprintf("balance detail {total spendable wstaking wbinding} got %v want %v", got.Bal, want.Bal))
	}
	gm := map[string]ObsBal{}
	for _, a := range got.AddrBal {
		gm[a.Addr] = a
	}
	wm := map[string]ObsBal{}
	for _, a := range want.AddrBal {
		wm[a.Addr] = a
	}
	var keys []string
	for k := range gm {
		keys = append(keys, k)
	}
	for k := range wm {
		if _, ok := gm[k]; !ok {
			keys = append(keys, k)
		}
	}
	sort.Strings(keys)
	for _, k := range keys {
		g, okg := gm[k]
		w, okw := wm[k]
		if !okg {
			g = ObsBal{Addr: k}
		}
		if !okw {
			w = ObsBal{Addr: k}
		}
		if g != w {
			d = append(d, fmt.Sprintf("address balance %s got %v want %v", k, g, w))
		}
	}
	gu := map[string]ObsUtxo{}
	for _, u := range got.Utxos {
		k := fmt.Sprintf("%s:%d", u.TxID, u.Vout)
		if _, dup := gu[k]; dup {
			d = append(d, "utxo reported twice: "+k)
		}
		gu[k] = u
	}
	wu := map[string]ObsUtxo{}
	for _, u := range want.Utxos {
		wu[fmt.Sprintf("%s:%d", u.TxID, u.Vout)] = u
	}
	var uk []string
	for k := range gu {
		uk = append(uk, k)
	}
	for k := range wu {
		if _, ok := gu[k]; !ok {
			uk = append(uk, k)
		}
	}
	sort.Strings(uk)
	for _, k := range uk {
		g, okg := gu[k]
		w, okw := wu[k]
		switch {
		case !okg:
			d = append(d, fmt.Sprintf("utxo missing: %s amt=%d h=%d addr=%s", k, w.Amount, w.Height, w.Addr))
		case !okw:
			d = append(d, fmt.Sprintf("utxo phantom: %s amt=%d h=%d addr=%s", k, g.Amount, g.Height, g.Addr))
		case g != w:
			d = append(d, fmt.Sprintf("utxo differs: %s got %+v want %+v", k, g, w))
		}
	}
	if len(d) == 0 {
		return ""
	}
	if len(d) > 8 {
		d = append(d[:8], fmt.Sprintf("... and %d more", len(d)-8))
	}
	out := ""
	for _, s := range d {
		out += s + "; "
	}
	return out
}

// ---- environment operations ----

// MineOnTip extends the best chain by one generated block and announces it.
//
//go:norace
func (w *World) MineOnTip(t *Tape, carryPct int) *BlockRec {
	tip := w.Node.Tip()
	b := w.Gen.GenBlock(t, tip, w.Gen.pendingMempool(), carryPct)
	w.Node.Attach(b)
	w.SyncTips()
	w.Announce(b)
	w.Stat("op.mine")
	w.logBlock("mine", b)
	return b
}

// pendingMempool lists announced transactions not on the best chain.
//
//go:norace
func (g *Gen) pendingMempool() []*wire.MsgTx {
	var out []*wire.MsgTx
	for _, m := range g.Mempool {
		if _, on := g.W.Node.OnBestChain(m.TxHash()); !on {
			out = append(out, m)
		}
	}
	return out
}

// Fork builds a side branch from depth blocks below the tip that is longer by
// extra blocks, then reorganises the node to it step by step; between the node
// database steps the schedule may run up to innerSteps scheduler steps each.
// Rolled-back transactions are re-mined with probability keepPct each.
//
//go:norace
func (w *World) Fork(t *Tape, depth, extra int, keepPct int, innerSteps int) *BlockRec {
	best := w.Node.BestChain()
	if depth >= len(best) {
		depth = len(best) - 1
	}
	if depth < 1 {
		return w.MineOnTip(t, 50)
	}
	forkPoint := best[len(best)-1-depth]
	// rolled-back, non-coinbase transactions in chain order
	var rolled []*wire.MsgTx
	for _, b := range best[len(best)-depth:] {
		for _, tx := range b.Msg.Transactions[1:] {
			rolled = append(rolled, tx)
		}
	}
	carry := append(rolled, w.Gen.pendingMempool()...)
	var branch []*BlockRec
	parent := forkPoint
	for i := 0; i < depth+extra; i++ {
		b := w.Gen.GenBlock(t, parent, carry, keepPct)
		branch = append(branch, b)
		parent = b
	}
	// the node reorganises: delete tips, then submit the branch
	for i := 0; i < depth; i++ {
		w.Node.DeleteTip()
		w.SyncTips()
		w.Stat("node.delete_tip")
		w.runSteps(t.Int(innerSteps + 1))
	}
	for _, b := range branch {
		w.Node.Attach(b)
		w.SyncTips()
		w.runSteps(t.Int(innerSteps + 1))
	}
	w.Announce(branch[len(branch)-1])
	for _, b := range branch {
		w.logBlock(fmt.Sprintf("fork(depth %d)", depth), b)
	}
	w.Stat("op.fork")
	w.Stats[fmt.Sprintf("op.fork.depth%d", minInt(depth, 6))]++
	return branch[len(branch)-1]
}

//go:norace
func minInt(a, b int) int {
	if a < b {
		return a
	}
	return b
}

//go:norace
func (w *World) runSteps(n int) {
	for i := 0; i < n; i++ {
		if w.S.CrashRequested || !w.S.Step() {
			return
		}
	}
}

// AnnounceLoose draws an unconfirmed transaction and announces it.
//
//go:norace
func (w *World) AnnounceLoose(t *Tape) *wire.MsgTx {
	tx := w.Gen.GenLooseTx(t)
	if tx == nil {
		return nil
	}
	w.Gen.Mempool = append(w.Gen.Mempool, tx)
	w.AnnounceTx(tx)
	w.Logf("announce unconfirmed %s", describeTx(tx))
	w.Stat("op.unconfirmed")
	return tx
}

// AnnounceAgain makes the node announce a transaction it announced before and
// that is still unconfirmed, with all parents confirmed and no rival known: the
// node accepts a transaction into its pool (and notifies) again after it
// dropped it - a block that held it was disconnected, it was evicted and
// relayed again, the node was restarted. conflictFree reports whether no other
// unconfirmed transaction of the pool spends one of its inputs.
//
//go:norace
func (w *World) AnnounceAgain(t *Tape) (tx *wire.MsgTx, conflictFree bool) {
	tip := w.Node.Tip()
	view := w.Gen.utxoAt(tip)
	pool := w.Gen.pendingMempool()
	var cands []*wire.MsgTx
	for _, m := range pool {
		ok := true
		for _, in := range m.TxIn {
			if _, unspent := view[in.PreviousOutPoint]; !unspent {
				ok = false
				break
			}
		}
		if ok {
			cands = append(cands, m)
		}
	}
	if len(cands) == 0 {
		return nil, false
	}
	tx = cands[t.Int(len(cands))]
	conflictFree = true
	// rivals: every transaction the node has ever seen that is not on the
	// best chain - announced ones and those of blocks that were reorganised
	// away (the node puts them back into its pool) - spending one of its inputs.
	// The node's pool would not take a transaction with such a rival, so it
	// would not announce it either.
	mine := map[wire.OutPoint]bool{}
	for _, in := range tx.TxIn {
		mine[in.PreviousOutPoint] = true
	}
	th := tx.TxHash()
	w.Node.mu.Lock()
	for h, m := range w.Node.allTx {
		if h == th {
			continue
		}
		if _, on := w.Node.txIdx[h]; on {
			continue
		}
		for _, in := range m.TxIn {
			if mine[in.PreviousOutPoint] {
				conflictFree = false
			}
		}
	}
	w.Node.mu.Unlock()
	if !conflictFree {
		return nil, false
	}
	w.AnnounceTx(tx)
	w.Logf("announce again %s", describeTx(tx))
	w.Stat("op.unconfirmed_again")
	return tx, conflictFree
}

// PayHash mines one block on the tip with a transaction that pays amount to
// the standard script of holder hash h, funded by a spendable coin of nobody's
// wallet. It reports whether such a coin existed.
//
//go:norace
func (w *World) PayHash(t *Tape, h [32]byte, amount int64) bool {
	tip := w.Node.Tip()
	view := w.Gen.utxoAt(tip)
	var src *genCoin
	for _, c := range sortedCoins(view) {
		if c.owner < 2 && c.cls == ClassStd && c.value > amount+200000 && tip.Height+1 >= c.height && tip.Height+1-c.height >= c.lock() {
			src = c
			break
		}
	}
	if src == nil {
		return false
	}
	tx := wire.NewMsgTx()
	tx.AddTxIn(wire.NewTxIn(&src.op, dummyWitness()))
	tx.AddTxOut(wire.NewTxOut(amount, stdScript(h)))
	if rest := src.value - amount - 100000; rest > 0 {
		hh, _ := w.Gen.pickPayee(t, 0)
		tx.AddTxOut(wire.NewTxOut(rest, stdScript(hh)))
	}
	b := w.Gen.NewBlock(t, tip, []*wire.MsgTx{tx})
	w.Node.Attach(b)
	w.SyncTips()
	w.Announce(b)
	w.logBlock("pay", b)
	w.Stat("op.directed_payment")
	return true
}

// AnnounceAgainAll announces again every still-unconfirmed transaction whose
// parents are all confirmed and that has no rival the node knows of (see
// AnnounceAgain), and returns them.
//
//go:norace
func (w *World) AnnounceAgainAll(t *Tape, max int) []*wire.MsgTx {
	var out []*wire.MsgTx
	seen := map[wire.Hash]bool{}
	for i := 0; i < max*3 && len(out) < max; i++ {
		tx, free := w.AnnounceAgain(t)
		if tx == nil {
			break
		}
		if h := tx.TxHash(); free && !seen[h] {
			seen[h] = true
			out = append(out, tx)
		}
	}
	return out
}

// AllDelivered reports whether every running instance has an empty queue.
//
//go:norace
func (w *World) AllDelivered() bool {
	for _, inst := range w.Insts {
		if !inst.Dead && inst.Started && len(inst.Pending) > 0 {
			return false
		}
	}
	return true
}

// decodeStd returns the holder script hash of a standard address string.
//
//go:norace
func (w *World) decodeStd(addr string) ([32]byte, bool) {
	var h [32]byte
	a, err := massutil.DecodeAddress(addr, w.Params)
	if err != nil || len(a.ScriptAddress()) != 32 {
		return h, false
	}
	copy(h[:], a.ScriptAddress())
	return h, true
}

// hdIndexOf finds the key-chain index of a holder hash among the first n
// external addresses of the independent derivation (-1 if none).
//
//go:norace
func hdIndexOf(hd *HDWallet, h [32]byte, n uint32) int {
	for i := uint32(0); i < n; i++ {
		a := hd.Addr(i)
		if a != nil && string(a.ScriptHash) == string(h[:]) {
			return int(i)
		}
	}
	return -1
}

// CheckWallet compares one wallet of inst with the ledger model of the
// current best chain. The owned address set is what the wallet itself reports
// (it must contain every address the harness saw issued and only addresses
// of the wallet's own key chain). class prefixes the violation class.
//
//go:norace
func (w *World) CheckWallet(inst *Instance, ws *WalletState, class string) *Ledger {
	id := ws.ID
	chain := w.Node.BestChain()
	got, err := inst.Observe(id)
	if err != nil {
		if errors.Is(err, ErrCrashed) || w.S.CrashRequested || inst.Dead {
			// an injected crash (e.g. a torn storage write of a background
			// flush) landed inside the observation itself: nothing was
			// observed; the caller recovers the instance and checks again
			w.Stat("probe.crash_during_observation")
			return nil
		}
		w.Violate(class+".observe-error", "wallet %s: %v", id, err)
		return nil
	}
	own := map[[32]byte]bool{}
	addrOf := map[[32]byte]string{}
	var addrs []string
	maxIdx := uint32(len(ws.Issued)) + inst.Cfg.Wallet.Settings.AddressGapLimit + 40
	for _, ab := range got.AddrBal {
		h, ok := w.decodeStd(ab.Addr)
		if !ok {
			w.Violate(class+".bad-address", "wallet %s reports undecodable address %q", id, ab.Addr)
			continue
		}
		if own[h] {
			w.Violate(class+".duplicate-address", "wallet %s reports address %s twice", id, ab.Addr)
			continue
		}
		own[h] = true
		addrOf[h] = ab.Addr
		addrs = append(addrs, ab.Addr)
		if hdIndexOf(ws.HD, h, maxIdx) < 0 {
			w.Violate(class+".foreign-address", "wallet %s reports address %s which is not among the first %d addresses of its key chain", id, ab.Addr, maxIdx)
		}
	}
	for _, ia := range ws.Issued {
		a := ws.HD.Addr(ia.Index)
		var h [32]byte
		copy(h[:], a.ScriptHash)
		if !own[h] {
			w.Violate(class+".address-lost", "wallet %s no longer reports issued address index %d (%s)", id, ia.Index, ia.Addr)
		}
	}
	l := ComputeLedger(chain, own)
	want := l.ModelObs(id, addrOf, addrs)
	if d := DiffObs(got, want); d != "" {
		w.Violate(class+".ledger-mismatch", "wallet %s at height %d: %s | wallet errors: %q", id, l.Tip, d, w.RecentErrors(4))
		if w.LogOn {
			es, _ := DumpDB(inst.DB)
			for _, e := range es {
				if e.Bucket[0] != 'k' {
					w.Logf("db %s", e.String())
				}
			}
			for _, b := range chain {
				for i, tx := range b.Msg.Transactions {
					w.Logf("chain h=%d blk=%s tx%d=%s", b.Height, b.Hash.String()[:8], i, tx.TxHash())
				}
			}
		}
	}
	w.Stat("check.ledger")
	if len(l.Coins) > 0 {
		w.Stat("check.ledger.nonempty")
	}
	return l
}

// CheckLedger compares every harness-known wallet of inst that is not being
// removed with the ledger model.
//
//go:norace
func (w *World) CheckLedger(inst *Instance, class string) {
	for _, id := range inst.SortedWalletIDs() {
		ws := inst.Wallets[id]
		if ws.Removing || ws.Uncertain {
			continue
		}
		if w.CheckWallet(inst, ws, class) == nil && (w.S.CrashRequested || inst.Dead) {
			return
		}
	}
}

//go:norace
func describeTx(tx *wire.MsgTx) string {
	s := tx.TxHash().String()[:10] + " in["
	if !tx.IsCoinBaseTx() {
		for _, in := range tx.TxIn {
			s += fmt.Sprintf("%s:%d ", in.PreviousOutPoint.Hash.String()[:10], in.PreviousOutPoint.Index)
		}
	}
	s += "] out["
	for _, out := range tx.TxOut {
		cls, holder, _, _, ok := classify(out.PkScript)
		if ok {
			s += fmt.Sprintf("%d:%x:%d ", cls, holder[:3], out.Value)
		} else {
			s += "other "
		}
	}
	return s + "]"
}

//go:norace
func (w *World) logBlock(what string, b *BlockRec) {
	if !w.LogOn {
		return
	}
	w.Logf("%s block h=%d %s", what, b.Height, b.Hash.String()[:10])
	for _, tx := range b.Msg.Transactions[1:] {
		w.Logf("    tx %s", describeTx(tx))
	}
}

// PreMine extends the best chain by n blocks before any wallet follows it
// (used for long-chain scenarios: multi-batch rescans, start-up fast-forward).
// Blocks carry only a coinbase; one in payEvery blocks is drawn from the
// generator with transactions. Nothing is announced.
//
//go:norace
func (w *World) PreMine(t *Tape, n int, payEvery int) {
	// long chains exist to meet the built-in rescan batch size (and its
	// edges); a batch of a few blocks would only multiply the rounds
	if w.Knobs.ImportBatch != 0 {
		k := w.Knobs
		k.ImportBatch = 0
		w.SetKnobs(k)
	}
	for i := 0; i < n; i++ {
		tip := w.Node.Tip()
		var b *BlockRec
		// wallet payments at a steady pace and, on purpose, in the blocks around
		// every multiple of 1000 (the rescan works in batches of that size)
		h := int(tip.Height) + 1
		edge := h > 900 && (h%1000 <= 3 || h%1000 >= 998 || h%1001 <= 1)
		if payEvery > 0 && (i%payEvery == payEvery-1 || edge) {
			b = w.Gen.GenBlock(t, tip, nil, 0)
		} else {
			b = w.Gen.NewBlock(zeroTape, tip, nil)
		}
		w.Node.Attach(b)
	}
	w.SyncTips()
	w.Stats["op.premined_blocks"] += n
}

// zeroTape always answers 0 (coinbase to the first stranger).
var zeroTape = &Tape{}
