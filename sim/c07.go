package sim

import (
	"bytes"
	"errors"
	"fmt"
	"time"

	"github.com/massnetorg/mass-core/wire"
	"massnet.org/mass-wallet/masswallet"
)

//go:norace
func init() {
	Runners["C07"] = runC07
	Runners["C08"] = runC08
}

// scanReach returns how far (exclusive index bound) the documented restore
// scan gets on the current best chain: it continues until gap-limit
// consecutive unused addresses past the last used one (or past the hint).
//
//go:norace
func scanReach(w *World, hd *HDWallet, hint, gap uint32) uint32 {
	reach, next := uint32(0), uint32(0)
	if hint == 0 {
		hint = 1
	}
	for i := uint32(0); i < next+gap || i < hint+gap; i++ {
		u, _ := w.Node.CheckScriptHashUsed(hd.Addr(i).ScriptHash)
		if u {
			next = i + 1
		}
		reach = i + 1
		if i > 4000 {
			break
		}
	}
	return reach
}

// quiesceAll drains every instance fairly.
//
//go:norace
func quiesceAll(w *World, class string, budget int) bool {
	n, ok := w.S.Quiesce(budget)
	if !ok {
		w.Violate(class+".liveness", "not quiescent after %d fair steps: %v | wallet errors: %q", n, w.S.ParkedSummary(), w.RecentErrors(4))
		return false
	}
	if len(w.S.FatalExits) > 0 {
		w.Violate(class+".follower-died", "%s", firstLines(w.S.FatalExits[0], 40))
		return false
	}
	if len(w.S.Panics) > 0 {
		w.Violate(class+".panic", "%s", firstLines(w.S.Panics[0], 40))
		return false
	}
	return true
}

// runC07: instance X watches the chain live; the same mnemonic (or exported
// keystore) is restored into a fresh instance Y at a seeded moment while the
// chain keeps moving; rescan batches interleave with tips and reorgs.
//
//go:norace
func runC07(w *World, p map[string]int) {
	t := w.Plan
	k := drawKnobs(w)
	k.GapLimit = uint32(3 + t.Int(8))
	k.NodeGates = t.Bool(75)
	w.SetKnobs(k)
	x := w.NewInstance("X")
	if err := x.Open(); err != nil {
		w.Violate("C07.harness", "%v", err)
		return
	}
	if err := setupWallets(w, x, 1+t.Int(2)); err != nil {
		w.Violate("C07.setup", "%v", err)
		return
	}
	long := t.Bool(param(p, "longpct", 8))
	if long {
		w.PreMine(t, 1001+t.Int(1700), 61)
		w.Stat("probe.long_chain")
	}
	if err := x.StartSolo(); err != nil {
		w.Violate("C07.start", "Start: %v", err)
		return
	}
	// history before the restore
	pre := 3 + t.Int(param(p, "pre", 25))
	ids := x.SortedWalletIDs()
	for i := 0; i < pre && len(w.Violations) == 0; i++ {
		switch t.Weighted([]int{10, 3, 3, 3}) {
		case 0:
			w.MineOnTip(t, 70)
		case 1:
			w.Fork(t, 1+t.Int(4), 1+t.Int(2), 50, 2)
		case 2:
			w.runSteps(1 + t.Int(10))
		case 3:
			ws := x.Wallets[ids[t.Int(len(ids))]]
			w.IssueAddress(x, ws, t.Bool(25), true, "C07")
		}
		w.runSteps(t.Int(4))
	}
	if len(w.Violations) > 0 {
		return
	}
	src := x.Wallets[ids[t.Int(len(ids))]]
	// gap boundary: the wallet's last issued address k is paid, addresses are
	// issued as far as the live gap rule allows (index k+gap), and that last
	// one is paid too - exactly gap-1 unused addresses lie between two used
	// ones, the widest hole a restore scan still has to bridge
	boundary := false
	if !long && len(src.Issued) > 0 && t.Bool(param(p, "boundarypct", 30)) {
		gapLim := k.GapLimit
		kIdx := src.Issued[len(src.Issued)-1].Index
		var hk [32]byte
		copy(hk[:], src.HD.Addr(kIdx).ScriptHash)
		if kIdx >= 1 && w.PayHash(t, hk, 3000000+int64(t.Int(1000))) && quiesceAll(w, "C07", 30000) {
			for len(src.Issued) > 0 && src.Issued[len(src.Issued)-1].Index < kIdx+gapLim {
				if err := w.IssueAddress(x, src, false, true, "C07"); err != nil || len(w.Violations) > 0 {
					break
				}
			}
			if len(w.Violations) > 0 {
				return
			}
			if last := src.Issued[len(src.Issued)-1].Index; last == kIdx+gapLim {
				var hl [32]byte
				copy(hl[:], src.HD.Addr(last).ScriptHash)
				if w.PayHash(t, hl, 2000000+int64(t.Int(1000))) && quiesceAll(w, "C07", 30000) {
					boundary = true
					w.Stat("probe.restore_across_widest_gap")
				}
			}
		}
	}
	// the restoring instance
	y := w.NewInstance("Y")
	if err := y.Open(); err != nil {
		w.Violate("C07.harness", "%v", err)
		return
	}
	if err := y.StartSolo(); err != nil {
		w.Violate("C07.start", "Start(Y): %v", err)
		return
	}
	// co-hosted variant: Y already holds the other wallet of X (restored and
	// ready) when src arrives, so transactions the two wallets share are
	// already on record in Y's store
	var co, coNw *WalletState
	if len(ids) > 1 && t.Bool(50) {
		for _, id := range ids {
			if id != src.ID {
				co = x.Wallets[id]
			}
		}
		var cerr error
		coNw, cerr = y.ImportMnemonic(co, uint32(len(co.Issued)), true)
		if cerr != nil {
			w.Violate("C07.restore-failed", "restore of the co-hosted wallet: %v", cerr)
			return
		}
		if !quiesceAll(w, "C07", 60000) {
			return
		}
		w.Stat("probe.restore_next_to_ready_wallet")
	}
	listed := func(ls []WalletListing) *WalletListing {
		for i := range ls {
			if ls[i].ID == src.ID {
				return &ls[i]
			}
		}
		return nil
	}
	nWant := 1
	if co != nil {
		nWant = 2
	}
	hint := uint32(len(src.Issued))
	if t.Bool(40) {
		hint = uint32(t.Int(len(src.Issued) + 2))
	}
	if boundary && t.Bool(75) {
		// a low hint: the scan itself has to bridge the hole
		hint = uint32(t.Int(2))
	}
	gap := y.Cfg.Wallet.Settings.AddressGapLimit
	reachAtImport := scanReach(w, src.HD, hint, gap)
	// the statement is about history the chain already contains at the
	// moment of the restore
	usedAtImport := map[uint32]bool{}
	for _, ia := range src.Issued {
		u, _ := w.Node.CheckScriptHashUsed(src.HD.Addr(ia.Index).ScriptHash)
		usedAtImport[ia.Index] = u
	}
	viaKeystore := t.Bool(35)
	var nw *WalletState
	var err error
	if viaKeystore {
		js, e := x.ExportWallet(src.ID, src.Pass, true)
		if e != nil {
			w.Violate("C07.export-failed", "ExportWallet: %v", e)
			return
		}
		nw, err = y.ImportKeystore(src, js, true)
		// the exported keystore carries the issued-index counter
		reachAtImport = scanReach(w, src.HD, uint32(len(src.Issued)), gap)
		w.Stat("op.restore_via_keystore")
	} else {
		nw, err = y.ImportMnemonic(src, hint, true)
		w.Stat("op.restore_via_mnemonic")
	}
	if err != nil {
		w.Violate("C07.restore-failed", "restore: %v", err)
		return
	}
	if nw.ID != src.ID {
		w.Violate("C07.id-mismatch", "restored wallet id %s differs from the original %s", nw.ID, src.ID)
		return
	}
	// importing status: listed as not ready and not selectable until done
	ls, lerr := y.ListWallets()
	if lerr != nil || len(ls) != nWant || listed(ls) == nil {
		w.Violate("C07.wallets-error", "Wallets(): %+v %v", ls, lerr)
		return
	}
	if !listed(ls).Ready {
		w.Stat("probe.importing_status_seen")
		if _, uerr := y.Use(nw.ID, true); uerr == nil {
			w.Violate("C07.selectable-while-importing", "UseWallet succeeded while the wallet is listed as importing")
			return
		} else if !errors.Is(uerr, masswallet.ErrWalletUnready) {
			w.Violate("C07.selectable-while-importing", "UseWallet while importing failed with %v, want the unready error", uerr)
			return
		}
	}
	// the chain keeps moving while the rescan runs
	post := t.Int(param(p, "post", 14))
	for i := 0; i < post && len(w.Violations) == 0; i++ {
		switch t.Weighted([]int{8, 4, 8, 1}) {
		case 0:
			w.MineOnTip(t, 70)
		case 1:
			w.Fork(t, 1+t.Int(5), 1+t.Int(2), 50, 3)
			w.Stat("probe.reorg_during_or_after_rescan")
		case 2:
			w.runSteps(1 + t.Int(15))
		case 3:
			// the restoring node is restarted: an unfinished rescan resumes from
			// its persisted cursor, with the chain moving meanwhile
			if ls2, e := y.ListWallets(); e == nil && listed(ls2) != nil && !listed(ls2).Ready {
				w.Stat("probe.restart_while_importing")
			}
			if !restartMoving(w, y, "C07") {
				return
			}
		}
		if ls2, e := y.ListWallets(); e == nil && listed(ls2) != nil && !listed(ls2).Ready {
			w.Stat("probe.chain_moved_while_importing")
		}
	}
	if len(w.Violations) > 0 || !quiesceAll(w, "C07", 60000) {
		return
	}
	if !w.AllDelivered() {
		w.Violate("C07.liveness", "quiescent but notifications undelivered: %v", w.S.ParkedSummary())
		return
	}
	ls, lerr = y.ListWallets()
	if lerr != nil || len(ls) != nWant || listed(ls) == nil || !listed(ls).Ready || listed(ls).Removing {
		w.Violate("C07.import-unfinished", "after the chain stopped moving the restored wallet is %+v (%v); queue=%d; %v | wallet errors: %q", ls, lerr, y.WM.SimTaskQueueLen(), w.S.ParkedSummary(), w.RecentErrors(6))
		return
	}
	// restored == model (== original, which is compared with the same model)
	nw.Issued = nil
	ly := w.CheckWallet(y, nw, "C07")
	if ly == nil || len(w.Violations) > 0 {
		return
	}
	lx := w.CheckWallet(x, src, "C07")
	if lx == nil || len(w.Violations) > 0 {
		return
	}
	if coNw != nil {
		coNw.Issued = nil
		if w.CheckWallet(y, coNw, "C07") == nil || len(w.Violations) > 0 {
			return
		}
		w.Stat("check.cohosted_wallet_equal")
	}
	// every address of the original that has history and lies within the
	// reach of the documented scan must have been rediscovered: its coins are
	// then in the model above; here the address set itself is compared
	got, oerr := y.Observe(nw.ID)
	if oerr != nil {
		w.Violate("C07.observe-error", "%v", oerr)
		return
	}
	have := map[[32]byte]bool{}
	for _, ab := range got.AddrBal {
		if h, ok := w.decodeStd(ab.Addr); ok {
			have[h] = true
		}
	}
	strict := w.Stats["op.fork"] == 0
	for _, ia := range src.Issued {
		var h [32]byte
		copy(h[:], src.HD.Addr(ia.Index).ScriptHash)
		used, _ := w.Node.CheckScriptHashUsed(h[:])
		if !used || !usedAtImport[ia.Index] {
			continue
		}
		if !strict && ia.Index >= reachAtImport {
			continue
		}
		if !have[h] {
			w.Violate("C07.address-not-rediscovered", "restore (keystore=%v hint=%d gap=%d) did not rediscover address index %d (%s) which has chain history",
				viaKeystore, hint, gap, ia.Index, ia.Addr)
			return
		}
		w.Stat("probe.used_address_rediscovered")
	}
	// and the two wallets report the same coins for the addresses both know
	if lx.Tip != ly.Tip {
		w.Violate("C07.tip-mismatch", "instances disagree on the tip: %d vs %d", lx.Tip, ly.Tip)
	}
	w.Stat("check.restore_equal")
	if len(ly.Coins) > 0 {
		w.Stat("check.restore_equal.nonempty")
	}
	w.Sample = fmt.Sprintf("C07 long=%v height=%d issued=%d hint=%d gap=%d keystore=%v forks=%d coins=%d", long, w.Node.Tip().Height, len(src.Issued), hint, gap, viaKeystore, w.Stats["op.fork"], len(ly.Coins))
}

// residue scans the raw wallet database for records of a removed wallet.
//
//go:norace
func residue(w *World, inst *Instance, ws *WalletState, addrs []string, hashes [][32]byte) string {
	es, err := DumpDB(inst.DB)
	if err != nil {
		return "database dump failed: " + err.Error()
	}
	id := []byte(ws.ID)
	for _, e := range es {
		if bytes.Contains(e.Key, id) || bytes.Contains([]byte(e.Bucket), id) {
			return fmt.Sprintf("record keyed by the wallet id remains in bucket %s: key %x", e.Bucket, e.Key)
		}
		for _, a := range addrs {
			if bytes.Contains(e.Key, []byte(a)) {
				return fmt.Sprintf("record keyed by address %s remains in bucket %s", a, e.Bucket)
			}
		}
		// credits (mined and pending) carry the owner's script hash in the value
		if e.Bucket == "u/c" || e.Bucket == "u/mc" {
			for _, h := range hashes {
				if bytes.Contains(e.Value, h[:]) {
					return fmt.Sprintf("credit owned by script hash %x remains in bucket %s: key %x", h[:6], e.Bucket, e.Key)
				}
			}
		}
	}
	return ""
}

// runC08: multi-wallet histories; one wallet is removed at a seeded moment
// (wrong passphrase first, and while importing where possible); afterwards no
// residue, survivors unchanged, re-import works.
//
//go:norace
func runC08(w *World, p map[string]int) {
	t := w.Plan
	k := drawKnobs(w)
	k.GapLimit = 20
	w.SetKnobs(k)
	inst := w.NewInstance("A")
	if err := inst.Open(); err != nil {
		w.Violate("C08.harness", "%v", err)
		return
	}
	nW := 2 + t.Int(2)
	if err := setupWallets(w, inst, nW); err != nil {
		w.Violate("C08.setup", "%v", err)
		return
	}
	if err := inst.StartSolo(); err != nil {
		w.Violate("C08.start", "Start: %v", err)
		return
	}
	w.Gen.TxKindW = []int{10, 3, 3, 3, 3, 4}
	pre := 4 + t.Int(param(p, "pre", 30))
	for i := 0; i < pre && len(w.Violations) == 0; i++ {
		switch t.Weighted([]int{10, 3, 3, 3}) {
		case 0:
			w.MineOnTip(t, 70)
		case 1:
			w.Fork(t, 1+t.Int(4), 1+t.Int(2), 50, 2)
		case 2:
			w.runSteps(1 + t.Int(10))
		case 3:
			w.AnnounceLoose(t)
		}
		w.runSteps(t.Int(4))
	}
	if len(w.Violations) > 0 {
		return
	}
	ids := inst.SortedWalletIDs()
	victim := inst.Wallets[ids[t.Int(len(ids))]]
	// wrong passphrase: refused, nothing changes
	if err := inst.RemoveWallet(victim.ID, "wrong"+victim.Pass, true); err == nil {
		w.Violate("C08.wrong-passphrase-accepted", "RemoveWallet with a wrong passphrase was accepted")
		return
	}
	// survivors' observations with the chain held still
	if !quiesceAll(w, "C08", 30000) {
		return
	}
	before := map[string]string{}
	for _, id := range ids {
		if id == victim.ID {
			continue
		}
		o, err := inst.Observe(id)
		if err != nil {
			w.Violate("C08.observe-error", "%v", err)
			return
		}
		before[id] = o.String()
	}
	// victim's identifiers for the residue scan
	vo, err := inst.Observe(victim.ID)
	if err != nil {
		w.Violate("C08.observe-error", "%v", err)
		return
	}
	var vaddrs []string
	var vhashes [][32]byte
	for _, ab := range vo.AddrBal {
		vaddrs = append(vaddrs, ab.Addr)
		if h, ok := w.decodeStd(ab.Addr); ok {
			vhashes = append(vhashes, h)
		}
	}
	for _, ia := range victim.Issued {
		if ia.Staking {
			vaddrs = append(vaddrs, ia.Addr)
		}
	}
	// often the victim has several pending transactions when it goes
	if t.Bool(40) {
		for k := 0; k < 2+t.Int(4); k++ {
			w.AnnounceLoose(t)
		}
		if !quiesceAll(w, "C08", 30000) {
			return
		}
		w.Stat("probe.pending_burst_before_removal")
	}
	holdStill := t.Bool(50)
	if err := inst.RemoveWallet(victim.ID, victim.Pass, t.Bool(50)); err != nil {
		w.Violate("C08.remove-refused", "RemoveWallet with the right passphrase: %v", err)
		return
	}
	if len(vo.Utxos) > 0 {
		w.Stat("probe.removed_wallet_had_coins")
	}
	// while the removal runs the chain may move
	if !holdStill {
		for i := 0; i < t.Int(8); i++ {
			switch t.Weighted([]int{6, 3, 6}) {
			case 0:
				w.MineOnTip(t, 70)
			case 1:
				w.Fork(t, 1+t.Int(4), 1, 50, 3)
				w.Stat("probe.reorg_during_removal")
			case 2:
				w.runSteps(1 + t.Int(10))
			}
		}
	}
	if len(w.Violations) > 0 || !quiesceAll(w, "C08", 40000) {
		return
	}
	if !w.walletGone(inst, victim.ID) {
		ls, _ := inst.ListWallets()
		w.Violate("C08.removal-unfinished", "after quiescence the removed wallet is still listed: %+v", ls)
		return
	}
	delete(inst.Wallets, victim.ID)
	if r := residue(w, inst, victim, vaddrs, vhashes); r != "" {
		w.Violate("C08.residue", "after removing wallet %s: %s", victim.ID, r)
		return
	}
	w.Stat("check.no_residue")
	// survivors: unchanged when the chain was held still, equal to the model in any case
	for _, id := range inst.SortedWalletIDs() {
		ws := inst.Wallets[id]
		if w.CheckWallet(inst, ws, "C08") == nil || len(w.Violations) > 0 {
			return
		}
		if holdStill {
			o, err := inst.Observe(id)
			if err != nil {
				w.Violate("C08.observe-error", "%v", err)
				return
			}
			if o.String() != before[id] {
				w.Violate("C08.survivor-changed", "wallet %s changed although only wallet %s was removed and the chain stood still:\nbefore: %s\nafter: %s", id, victim.ID, before[id], o.String())
				return
			}
			w.Stat("check.survivor_unchanged")
		}
	}
	// survivors keep their deposit histories and can still sign for their
	// coins (also for coins of transactions they shared with the removed wallet)
	for _, id := range inst.SortedWalletIDs() {
		ws := inst.Wallets[id]
		l := w.CheckWallet(inst, ws, "C08")
		if l == nil || len(w.Violations) > 0 {
			return
		}
		w.CheckGames(inst, ws, l, "C08")
		if len(w.Violations) > 0 {
			return
		}
		if c := newSpendCtx(w, inst, ws, map[wire.OutPoint]time.Time{}, "C08"); c != nil {
			if _, err := inst.Use(ws.ID, true); err == nil {
				for k := 0; k < 2 && len(w.Violations) == 0; k++ {
					c.signOne(t, "C08")
				}
			}
		}
		if len(w.Violations) > 0 {
			return
		}
	}
	// the chain goes on (reorgs across blocks that held shared transactions)
	for i := 0; i < t.Int(10) && len(w.Violations) == 0; i++ {
		if t.Bool(35) {
			w.Fork(t, 1+t.Int(5), 1, 50, 2)
		} else {
			w.MineOnTip(t, 70)
		}
		w.runSteps(t.Int(6))
	}
	if len(w.Violations) > 0 || !quiesceAll(w, "C08", 40000) {
		return
	}
	if !w.AllDelivered() {
		w.Violate("C08.liveness", "notifications undelivered: %v", w.S.ParkedSummary())
		return
	}
	w.CheckLedger(inst, "C08")
	if len(w.Violations) > 0 {
		return
	}
	// re-import the same mnemonic
	if t.Bool(70) {
		nw, err := inst.ImportMnemonic(victim, uint32(len(victim.Issued)), true)
		if err != nil {
			w.Violate("C08.reimport-failed", "importing the removed wallet's mnemonic again: %v", err)
			return
		}
		if !quiesceAll(w, "C08", 60000) {
			return
		}
		ls, lerr := inst.ListWallets()
		ok := false
		for _, l := range ls {
			if l.ID == nw.ID && l.Ready && !l.Removing {
				ok = true
			}
		}
		if lerr != nil || !ok {
			w.Violate("C08.reimport-unfinished", "re-imported wallet not ready at quiescence: %+v %v", ls, lerr)
			return
		}
		nw.Issued = nil
		w.CheckWallet(inst, nw, "C08")
		w.Stat("check.reimport")
		// what the node announces (again) from now on reaches the re-imported
		// wallet like any other: nothing of the removed wallet's pending set may
		// linger in memory and make the wallet ignore it
		again := w.AnnounceAgainAll(t, 8)
		if len(again) > 0 && (!quiesceAll(w, "C08", 30000) || !w.AllDelivered()) {
			return
		}
		for _, tx := range again {
			if !relevantToWallets(w, inst, tx) {
				continue
			}
			pend, ok := w.PendingSet(inst)
			if !ok {
				return
			}
			if _, in := pend[tx.TxHash()]; !in {
				if rival, loser, found := lostToBlockRival(w, tx); found {
					// nothing to do with the removal: see the known finding
					w.Violate("C08.readmitted-transaction-ignored", "%s", readmittedDetail(tx.TxHash(), loser, rival))
					return
				}
				w.Violate("C08.announcement-ignored-after-reimport", "transaction %s, announced again after wallet %s was removed and imported again (all parents confirmed, no rival), is not in the pending set", tx.TxHash(), victim.ID)
				return
			}
			w.Stat("check.announcement_after_reimport")
		}
	}
	w.Sample = fmt.Sprintf("C08 wallets=%d victim-coins=%d holdStill=%v height=%d forks=%d", nW, len(vo.Utxos), holdStill, w.Node.Tip().Height, w.Stats["op.fork"])
}
