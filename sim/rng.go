package sim

// Rng is a small self-contained PRNG (splitmix64) so that a seed means the
// same run under every Go release.
type Rng struct {
	s uint64
	// ZeroPrefix, when > 0, makes the next Read start with that many zero
	// bytes (once): entropy with leading zero bytes is one in 256 by chance
	ZeroPrefix int
}

//go:norace
func NewRng(seed uint64) *Rng { return &Rng{s: seed*0x9E3779B97F4A7C15 + 0x1234567} }

//go:norace
func (r *Rng) Uint64() uint64 {
	r.s += 0x9E3779B97F4A7C15
	z := r.s
	z = (z ^ (z >> 30)) * 0xBF58476D1CE4E5B9
	z = (z ^ (z >> 27)) * 0x94D049BB133111EB
	return z ^ (z >> 31)
}

//go:norace
func (r *Rng) Intn(n int) int {
	if n <= 0 {
		return 0
	}
	return int(r.Uint64() % uint64(n))
}

// Read implements io.Reader (used as crypto/rand.Reader inside a run).
//
//go:norace
func (r *Rng) Read(p []byte) (int, error) {
	for i := 0; i < len(p); i += 8 {
		v := r.Uint64()
		for j := 0; j < 8 && i+j < len(p); j++ {
			p[i+j] = byte(v >> (8 * uint(j)))
		}
	}
	if r.ZeroPrefix > 0 {
		for i := 0; i < r.ZeroPrefix && i < len(p); i++ {
			p[i] = 0
		}
		r.ZeroPrefix = 0
	}
	return len(p), nil
}
