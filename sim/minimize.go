package sim

import (
	"testing"
	"time"
)

// Minimize shrinks the plan and schedule tapes of a failing run while the same
// violation class persists. Candidates are: truncation, chunk deletion,
// zeroing and halving of values. Exhausted tapes read as zeros, which are the
// simplest choices everywhere (empty block, first enabled goroutine, no
// extra steps).
//
//go:norace
func Minimize(t *testing.T, prop string, seed uint64, plan, sched []int, class string, params map[string]int, maxRuns int, maxWall time.Duration) (bestPlan, bestSched []int, runs int) {
	deadline := time.Now().Add(maxWall)
	fails := func(p, s []int) bool {
		if runs >= maxRuns || time.Now().After(deadline) {
			return false
		}
		runs++
		r := RunOne(t, prop, seed, p, s, true, params, false)
		if r.Harness != "" {
			return false
		}
		for _, v := range r.Violations {
			if v.Class == class {
				return true
			}
		}
		return false
	}
	bestPlan, bestSched = append([]int(nil), plan...), append([]int(nil), sched...)
	shrink := func(cur []int, test func([]int) bool) []int {
		// 1. truncation (binary search for a short failing prefix)
		lo, hi := 0, len(cur)
		for lo < hi {
			mid := (lo + hi) / 2
			if test(cur[:mid]) {
				hi = mid
			} else {
				lo = mid + 1
			}
		}
		if hi < len(cur) && test(cur[:hi]) {
			cur = append([]int(nil), cur[:hi]...)
		}
		// 2. chunk zeroing (keeps the alignment of later choices; zero is the
		// simplest choice everywhere)
		for size := len(cur) / 2; size >= 1; size /= 2 {
			for i := 0; i+size <= len(cur); i += size {
				allZero := true
				for _, v := range cur[i : i+size] {
					if v != 0 {
						allZero = false
						break
					}
				}
				if allZero {
					continue
				}
				cand := append([]int(nil), cur...)
				for j := i; j < i+size; j++ {
					cand[j] = 0
				}
				if test(cand) {
					cur = cand
				}
			}
		}
		// 3. chunk deletion
		for size := len(cur) / 2; size >= 1; size /= 2 {
			for i := 0; i+size <= len(cur); {
				cand := append(append([]int(nil), cur[:i]...), cur[i+size:]...)
				if test(cand) {
					cur = cand
				} else {
					i += size
				}
			}
		}
		// 4. zero / halve values
		for i := 0; i < len(cur); i++ {
			if cur[i] == 0 {
				continue
			}
			for _, v := range []int{0, cur[i] / 2, cur[i] - 1} {
				if v >= cur[i] || v < 0 {
					continue
				}
				cand := append([]int(nil), cur...)
				cand[i] = v
				if test(cand) {
					cur = cand
					break
				}
			}
		}
		return cur
	}
	for round := 0; round < 2; round++ {
		before := len(bestPlan) + len(bestSched)
		bestSched = shrink(bestSched, func(s []int) bool { return fails(bestPlan, s) })
		bestPlan = shrink(bestPlan, func(p []int) bool { return fails(p, bestSched) })
		if len(bestPlan)+len(bestSched) == before || runs >= maxRuns || time.Now().After(deadline) {
			break
		}
	}
	return
}
