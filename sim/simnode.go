package sim

// SimNode: the simulated full node. It implements exactly the part of
// mass-core's database.Db that the wallet's ChainFetcher forwards to (every
// other method panics through the embedded nil interface), keeps every block
// ever produced (the real block files are append-only) and a best-chain view
// that is modified step by step the way the real node does it
// (delete tip / submit block, one database commit per step).

import (
	"bytes"
	"crypto/sha256"
	"errors"
	"fmt"
	"sort"

	"github.com/massnetorg/mass-core/database"
	"github.com/massnetorg/mass-core/database/storage"
	"github.com/massnetorg/mass-core/massutil"
	"github.com/massnetorg/mass-core/txscript"
	"github.com/massnetorg/mass-core/wire"
)

// BlockRec is one block instance in the simulated append-only block file.
type BlockRec struct {
	Msg      *wire.MsgBlock
	Hash     wire.Hash
	Height   uint64
	Parent   *BlockRec
	Offset   uint64 // position in block file 0
	Raw      []byte // wire.DB serialisation
	TxLocs   []wire.TxLoc
	TxHashes []wire.Hash
	// holder script hash -> indexes of transactions that pay to it or spend an
	// output paying to it (what the node's address index records)
	related map[[32]byte][]int
	// holder script hashes paid by outputs of this block
	paid map[[32]byte]int
}

type txPos struct {
	height uint64
	idx    int
}

// ErrInjected is returned by injected chain-database faults.
var ErrInjected = errors.New("sim: injected chain database error")

// SimNode implements database.Db for the wallet.
type SimNode struct {
	database.Db // nil: any method outside the wallet's node contract panics

	mu     hmu
	all    map[wire.Hash]*BlockRec
	byOff  map[uint64]*BlockRec
	best   []*BlockRec // index == height
	txIdx  map[wire.Hash]txPos
	allTx  map[wire.Hash]*wire.MsgTx // every transaction ever put in a block or announced
	used   map[[32]byte]int
	nextOf uint64

	// Gate is called (outside the node lock) at the start of every query with
	// the method name; the scheduler parks handler/worker goroutines there.
	Gate func(method string)
	// Work is called once per query (work budget of client calls)
	Work func()
	// FailAt, when > 0, makes the FailAt-th gated query (counted by Calls)
	// return ErrInjected; Sticky keeps failing until cleared.
	FailAt int
	Sticky bool
	Calls  int
	Fired  int
	// count calls only for goroutines for which CountCaller returns true
	CountCaller func() bool
}

//go:norace
func NewSimNode(genesis *wire.MsgBlock) *SimNode {
	n := &SimNode{
		all:   map[wire.Hash]*BlockRec{},
		byOff: map[uint64]*BlockRec{},
		txIdx: map[wire.Hash]txPos{},
		allTx: map[wire.Hash]*wire.MsgTx{},
		used:  map[[32]byte]int{},
	}
	g, err := n.NewBlockRec(nil, genesis)
	if err != nil {
		panic(err)
	}
	n.submit(g)
	return n
}

// holderHash returns the script hash the node's address index files an output
// under, or ok=false when the output is not indexed.
//
//go:norace
func holderHash(pkScript []byte) (h [32]byte, ok bool) {
	class, pops := txscript.GetScriptInfo(pkScript)
	switch class {
	case txscript.WitnessV0ScriptHashTy, txscript.StakingScriptHashTy:
		_, rsh, err := txscript.GetParsedOpcode(pops, class)
		if err != nil {
			return h, false
		}
		return rsh, true
	case txscript.BindingScriptHashTy:
		holder, _, err := txscript.GetParsedBindingOpcode(pops)
		if err != nil || len(holder) != 32 {
			return h, false
		}
		copy(h[:], holder)
		return h, true
	}
	return h, false
}

// NewBlockRec serialises a block and computes its index data. The block is not
// yet part of any chain.
//
//go:norace
func (n *SimNode) NewBlockRec(parent *BlockRec, msg *wire.MsgBlock) (*BlockRec, error) {
	raw, err := msg.Bytes(wire.DB)
	if err != nil {
		return nil, err
	}
	locs, err := massutil.NewBlock(msg).TxLoc()
	if err != nil {
		return nil, err
	}
	b := &BlockRec{Msg: msg, Hash: msg.BlockHash(), Height: msg.Header.Height, Parent: parent,
		Raw: raw, TxLocs: locs, related: map[[32]byte][]int{}, paid: map[[32]byte]int{}}
	n.mu.Lock()
	defer n.mu.Unlock()
	b.Offset = n.nextOf
	n.nextOf += uint64(len(raw)) + 16
	inBlock := map[wire.Hash]*wire.MsgTx{}
	for i, tx := range msg.Transactions {
		h := tx.TxHash()
		b.TxHashes = append(b.TxHashes, h)
		inBlock[h] = tx
		if _, ok := n.allTx[h]; !ok {
			n.allTx[h] = tx
		}
		seen := map[[32]byte]bool{}
		add := func(sh [32]byte) {
			if !seen[sh] {
				seen[sh] = true
				b.related[sh] = append(b.related[sh], i)
			}
		}
		if !tx.IsCoinBaseTx() {
			for _, in := range tx.TxIn {
				prev := inBlock[in.PreviousOutPoint.Hash]
				if prev == nil {
					prev = n.allTx[in.PreviousOutPoint.Hash]
				}
				if prev == nil || int(in.PreviousOutPoint.Index) >= len(prev.TxOut) {
					return nil, fmt.Errorf("block %d tx %d: unknown previous output %v", b.Height, i, in.PreviousOutPoint)
				}
				if sh, ok := holderHash(prev.TxOut[in.PreviousOutPoint.Index].PkScript); ok {
					add(sh)
				}
			}
		}
		for _, out := range tx.TxOut {
			if sh, ok := holderHash(out.PkScript); ok {
				add(sh)
				b.paid[sh]++
			}
		}
	}
	n.all[b.Hash] = b
	n.byOff[b.Offset] = b
	return b, nil
}

// RegisterTx makes an unconfirmed transaction known for prev-out resolution.
//
//go:norace
func (n *SimNode) RegisterTx(tx *wire.MsgTx) {
	n.mu.Lock()
	defer n.mu.Unlock()
	h := tx.TxHash()
	if _, ok := n.allTx[h]; !ok {
		n.allTx[h] = tx
	}
}

//go:norace
func (n *SimNode) LookupTx(h wire.Hash) *wire.MsgTx {
	n.mu.Lock()
	defer n.mu.Unlock()
	return n.allTx[h]
}

//go:norace
func (n *SimNode) submit(b *BlockRec) {
	n.best = append(n.best, b)
	for i, h := range b.TxHashes {
		n.txIdx[h] = txPos{b.Height, i}
	}
	for sh, c := range b.paid {
		n.used[sh] += c
	}
}

// SubmitBlock appends b to the best chain (one node database commit).
//
//go:norace
func (n *SimNode) Attach(b *BlockRec) {
	Progress.Add(1) // harness work without scheduler steps (pre-mining) is progress too
	n.mu.Lock()
	defer n.mu.Unlock()
	tip := n.best[len(n.best)-1]
	if b.Parent != tip || b.Height != tip.Height+1 {
		panic(fmt.Sprintf("sim: Attach %d not on tip %d", b.Height, tip.Height))
	}
	n.submit(b)
}

// DeleteTip removes the best tip (one node database commit).
//
//go:norace
func (n *SimNode) DeleteTip() {
	n.mu.Lock()
	defer n.mu.Unlock()
	if len(n.best) <= 1 {
		panic("sim: delete genesis")
	}
	b := n.best[len(n.best)-1]
	n.best = n.best[:len(n.best)-1]
	for _, h := range b.TxHashes {
		delete(n.txIdx, h)
	}
	for sh, c := range b.paid {
		n.used[sh] -= c
		if n.used[sh] == 0 {
			delete(n.used, sh)
		}
	}
}

//go:norace
func (n *SimNode) Tip() *BlockRec {
	n.mu.Lock()
	defer n.mu.Unlock()
	return n.best[len(n.best)-1]
}

//go:norace
func (n *SimNode) BestChain() []*BlockRec {
	n.mu.Lock()
	defer n.mu.Unlock()
	return append([]*BlockRec(nil), n.best...)
}

//go:norace
func (n *SimNode) BlockByHash(h wire.Hash) *BlockRec {
	n.mu.Lock()
	defer n.mu.Unlock()
	return n.all[h]
}

// OnBestChain reports whether the transaction is currently confirmed.
//
//go:norace
func (n *SimNode) OnBestChain(h wire.Hash) (uint64, bool) {
	n.mu.Lock()
	defer n.mu.Unlock()
	p, ok := n.txIdx[h]
	return p.height, ok
}

// ---- database.Db subset ----

//go:norace
func (n *SimNode) enter(method string) error {
	if n.Work != nil {
		n.Work()
	}
	if n.Gate != nil {
		n.Gate(method)
	}
	n.mu.Lock()
	defer n.mu.Unlock()
	if n.CountCaller != nil && !n.CountCaller() {
		return nil
	}
	n.Calls++
	if n.FailAt > 0 && (n.Calls == n.FailAt || (n.Sticky && n.Calls > n.FailAt)) {
		n.Fired++
		return ErrInjected
	}
	return nil
}

//go:norace
func (n *SimNode) NewestSha() (*wire.Hash, uint64, error) {
	if err := n.enter("NewestSha"); err != nil {
		return nil, 0, err
	}
	n.mu.Lock()
	defer n.mu.Unlock()
	t := n.best[len(n.best)-1]
	h := t.Hash
	return &h, t.Height, nil
}

//go:norace
func (n *SimNode) FetchBlockShaByHeight(height uint64) (*wire.Hash, error) {
	if err := n.enter("FetchBlockShaByHeight"); err != nil {
		return nil, err
	}
	n.mu.Lock()
	defer n.mu.Unlock()
	if height >= uint64(len(n.best)) {
		return nil, storage.ErrNotFound
	}
	h := n.best[height].Hash
	return &h, nil
}

//go:norace
func (n *SimNode) FetchBlockLocByHeight(height uint64) (*database.BlockLoc, error) {
	if err := n.enter("FetchBlockLocByHeight"); err != nil {
		return nil, err
	}
	n.mu.Lock()
	defer n.mu.Unlock()
	if height >= uint64(len(n.best)) {
		return nil, storage.ErrNotFound
	}
	b := n.best[height]
	return &database.BlockLoc{Height: height, Hash: b.Hash, File: 0, Offset: b.Offset, Length: uint64(len(b.Raw))}, nil
}

//go:norace
func (n *SimNode) onBest(sha *wire.Hash) *BlockRec {
	if sha == nil {
		return nil
	}
	b := n.all[*sha]
	if b == nil || b.Height >= uint64(len(n.best)) || n.best[b.Height] != b {
		return nil
	}
	return b
}

//go:norace
func (n *SimNode) FetchBlockBySha(sha *wire.Hash) (*massutil.Block, error) {
	if err := n.enter("FetchBlockBySha"); err != nil {
		return nil, err
	}
	n.mu.Lock()
	defer n.mu.Unlock()
	b := n.onBest(sha)
	if b == nil {
		return nil, storage.ErrNotFound
	}
	// decode a private copy, as the real store does
	blk, err := massutil.NewBlockFromBytes(b.Raw, wire.DB)
	if err != nil {
		return nil, err
	}
	return blk, nil
}

//go:norace
func (n *SimNode) FetchBlockHeaderBySha(sha *wire.Hash) (*wire.BlockHeader, error) {
	if err := n.enter("FetchBlockHeaderBySha"); err != nil {
		return nil, err
	}
	n.mu.Lock()
	defer n.mu.Unlock()
	b := n.onBest(sha)
	if b == nil {
		return nil, storage.ErrNotFound
	}
	hdr := b.Msg.Header
	return &hdr, nil
}

//go:norace
func cutTx(b *BlockRec, off, l int) (*wire.MsgTx, error) {
	if off < 0 || l <= 0 || off+l > len(b.Raw) {
		return nil, fmt.Errorf("sim: tx location out of block: off=%d len=%d block=%d", off, l, len(b.Raw))
	}
	var tx wire.MsgTx
	if err := tx.SetBytes(b.Raw[off:off+l], wire.DB); err != nil {
		return nil, err
	}
	return &tx, nil
}

//go:norace
func (n *SimNode) FetchTxByLoc(height uint64, off, l int) (*wire.MsgTx, error) {
	if err := n.enter("FetchTxByLoc"); err != nil {
		return nil, err
	}
	n.mu.Lock()
	defer n.mu.Unlock()
	if height >= uint64(len(n.best)) {
		return nil, storage.ErrNotFound
	}
	return cutTx(n.best[height], off, l)
}

//go:norace
func (n *SimNode) FetchTxByFileLoc(loc *database.BlockLoc, txLoc *wire.TxLoc) (*wire.MsgTx, error) {
	if err := n.enter("FetchTxByFileLoc"); err != nil {
		return nil, err
	}
	n.mu.Lock()
	defer n.mu.Unlock()
	b := n.byOff[loc.Offset]
	if b == nil || loc.File != 0 {
		return nil, fmt.Errorf("sim: no block at file %d offset %d", loc.File, loc.Offset)
	}
	return cutTx(b, txLoc.TxStart, txLoc.TxLen)
}

//go:norace
func (n *SimNode) FetchTxBySha(sha *wire.Hash) ([]*database.TxReply, error) {
	if err := n.enter("FetchTxBySha"); err != nil {
		return []*database.TxReply{}, err
	}
	n.mu.Lock()
	defer n.mu.Unlock()
	p, ok := n.txIdx[*sha]
	if !ok {
		return []*database.TxReply{}, nil
	}
	b := n.best[p.height]
	loc := b.TxLocs[p.idx]
	tx, err := cutTx(b, loc.TxStart, loc.TxLen)
	if err != nil {
		return []*database.TxReply{}, err
	}
	bh := b.Hash
	h := *sha
	return []*database.TxReply{{Sha: &h, Tx: tx, BlkSha: &bh, Height: b.Height, TxSpent: make([]bool, len(tx.TxOut))}}, nil
}

//go:norace
func (n *SimNode) FetchScriptHashRelatedTx(hashes [][]byte, start, stop uint64) (map[uint64][]*wire.TxLoc, error) {
	if err := n.enter("FetchScriptHashRelatedTx"); err != nil {
		return nil, err
	}
	n.mu.Lock()
	defer n.mu.Unlock()
	res := map[uint64][]*wire.TxLoc{}
	want := map[[32]byte]bool{}
	for _, h := range hashes {
		var k [32]byte
		copy(k[:], h)
		want[k] = true
	}
	for h := start; h < stop && h < uint64(len(n.best)); h++ {
		b := n.best[h]
		idx := map[int]bool{}
		for sh, list := range b.related {
			if want[sh] {
				for _, i := range list {
					idx[i] = true
				}
			}
		}
		if len(idx) == 0 {
			continue
		}
		var locs []*wire.TxLoc
		for i := range idx {
			l := b.TxLocs[i]
			locs = append(locs, &l)
		}
		sort.Slice(locs, func(i, j int) bool { return locs[i].TxStart < locs[j].TxStart })
		res[h] = locs
	}
	return res, nil
}

//go:norace
func (n *SimNode) CheckScriptHashUsed(scriptHash []byte) (bool, error) {
	if err := n.enter("CheckScriptHashUsed"); err != nil {
		return false, err
	}
	if len(scriptHash) != sha256.Size {
		return false, errors.New("wrong script hash length")
	}
	n.mu.Lock()
	defer n.mu.Unlock()
	var k [32]byte
	copy(k[:], scriptHash)
	return n.used[k] > 0, nil
}

// equalBytes is used by the conformance self-test.
//
//go:norace
func equalBytes(a, b []byte) bool { return bytes.Equal(a, b) }

// ---- queries only the API layer makes (through the chain object); the
// simulated node keeps no staking ranks or old-style binding index ----

//go:norace
func (n *SimNode) FetchUnexpiredStakingRank(height uint64, onlyOnList bool) ([]database.Rank, error) {
	if err := n.enter("FetchUnexpiredStakingRank"); err != nil {
		return nil, err
	}
	return nil, nil
}

//go:norace
func (n *SimNode) FetchStakingRank(height uint64, onlyOnList bool) ([]database.Rank, error) {
	if err := n.enter("FetchStakingRank"); err != nil {
		return nil, err
	}
	return nil, nil
}

//go:norace
func (n *SimNode) FetchOldBinding(scriptHash []byte) ([]*database.BindingTxReply, error) {
	if err := n.enter("FetchOldBinding"); err != nil {
		return nil, err
	}
	return nil, nil
}
