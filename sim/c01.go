package sim

import (
	"fmt"

	"github.com/massnetorg/mass-core/wire"
	"massnet.org/mass-wallet/masswallet/keystore"
)

//go:norace
func init() { Runners["C01"] = runC01 }

//go:norace
func param(p map[string]int, k string, def int) int {
	if v, ok := p[k]; ok {
		return v
	}
	return def
}

// drawKnobs draws the consensus / configuration knobs for a chain-following run.
//
//go:norace
func drawKnobs(w *World) Knobs {
	t := w.Plan
	k := Knobs{
		CoinbaseMaturity: uint64(1 + t.Int(4)),
		MinFrozen:        uint64(2 + t.Int(3)),
		WarmUpHeight:     uint64(4 + t.Int(30)),
		BindingLock:      uint64(2 + t.Int(5)),
		MinStakingValue:  1000,
		GapLimit:         uint32(20),
		WriteBuffer:      4 << 20,
		NodeGates:        t.Bool(60),
	}
	if t.Bool(10) {
		k.WriteBuffer = 16 << 10 // small enough for memtable flushes and compaction
	}
	// background work in several steps on small worlds: a rescan batch of a
	// few blocks, a removal round of a few credits (half of the runs each;
	// the built-in sizes are met by the long-chain variants)
	if t.Bool(50) {
		k.ImportBatch = uint64(1 + t.Int(6))
	}
	if t.Bool(50) {
		k.RemoveRound = 1 + t.Int(4)
	}
	return k
}

// setupWallets creates n wallets with a few addresses each on inst (solo).
//
//go:norace
func setupWallets(w *World, inst *Instance, n int) error {
	t := w.Plan
	for i := 0; i < n; i++ {
		ws, err := inst.CreateWallet(fmt.Sprintf("pass%dWord", i), 128, true)
		if err != nil {
			return fmt.Errorf("CreateWallet: %w", err)
		}
		if _, err := inst.Use(ws.ID, true); err != nil {
			return fmt.Errorf("UseWallet: %w", err)
		}
		na := 1 + t.Int(3)
		for j := 0; j < na; j++ {
			if _, err := inst.NewAddress(t.Bool(25), true); err != nil {
				if err == keystore.ErrGapLimit {
					break // small gap limits legitimately refuse unused runs of addresses
				}
				return fmt.Errorf("NewAddress: %w", err)
			}
		}
	}
	return nil
}

// finalCheck: once the environment stops changing, a fair schedule must reach
// quiescence with every announced tip processed, and the ledger must equal the
// model.
//
//go:norace
func finalCheck(w *World, inst *Instance, class string) {
	pending := len(inst.Pending)
	budget := 5000 + 500*pending
	n, ok := w.S.Quiesce(budget)
	if !ok {
		w.Violate(class+".liveness", "not quiescent after %d fair steps with %d queued notifications: %v | wallet errors: %q", n, pending, w.S.ParkedSummary(), w.RecentErrors(4))
		return
	}
	if len(w.S.FatalExits) > 0 {
		w.Violate(class+".follower-died", "a follower goroutine died through logging FATAL (os.Exit in production): %s", firstLines(w.S.FatalExits[0], 30))
		return
	}
	if len(w.S.Panics) > 0 {
		w.Violate(class+".panic", "%s", firstLines(w.S.Panics[0], 30))
		return
	}
	if !w.AllDelivered() {
		w.Violate(class+".liveness", "quiescent but %d notifications undelivered: %v", len(inst.Pending), w.S.ParkedSummary())
		return
	}
	w.CheckLedger(inst, class)
}

//go:norace
func firstLines(s string, n int) string {
	out := ""
	c := 0
	for _, ch := range s {
		out += string(ch)
		if ch == '\n' {
			c++
			if c >= n {
				break
			}
		}
	}
	return out
}

// restartMoving: graceful stop, chain movement while the process is down, and a
// start during which the chain keeps moving (Instance.StartMoving).
//
//go:norace
func restartMoving(w *World, inst *Instance, class string) bool {
	t := w.Plan
	w.runSteps(t.Int(4))
	if !inst.StopSolo() {
		w.Violate(class+".stop-hangs", "Stop did not return: %v", w.S.ParkedSummary())
		return false
	}
	inst.Pending = nil
	for k := t.Int(4); k > 0; k-- {
		if t.Bool(70) {
			w.MineOnTip(t, 70)
		} else {
			w.Fork(t, 1+t.Int(3), 1+t.Int(2), 50, 0)
		}
		w.Stat("op.env_while_down")
	}
	if err := inst.Open(); err != nil {
		w.Violate(class+".restart-failed", "reopen: %v", err)
		return false
	}
	if err := inst.StartMoving(t, 3); err != nil {
		w.Violate(class+".restart-failed", "Start: %v | wallet errors: %q", err, w.RecentErrors(4))
		return false
	}
	w.Stat("op.restart_moving")
	return true
}

//go:norace
func runC01(w *World, p map[string]int) {
	t := w.Plan
	w.SetKnobs(drawKnobs(w))
	inst := w.NewInstance("A")
	if err := inst.Open(); err != nil {
		w.Violate("C01.harness", "%v", err)
		return
	}
	nW := 1 + t.Weighted([]int{6, 3, 1})
	if err := setupWallets(w, inst, nW); err != nil {
		w.Violate("C01.setup", "%v", err)
		return
	}
	if err := inst.StartSolo(); err != nil {
		w.Violate("C01.start", "Start: %v", err)
		return
	}
	maxOps := param(p, "ops", 40)
	nOps := 4 + t.Int(maxOps)
	maxDepth := param(p, "maxdepth", 6)
	for i := 0; i < nOps && len(w.Violations) == 0; i++ {
		switch t.Weighted([]int{10, 3, 4, 1, 2, 2, param(p, "restartw", 2)}) {
		case 6:
			// the node is stopped (queued tips are lost with the process), the
			// chain moves while it is down, and it starts again while blocks
			// keep arriving: catch-up and queued announcements overlap
			if !restartMoving(w, inst, "C01") {
				break
			}
		case 0:
			w.MineOnTip(t, 70)
		case 1:
			depth := 1 + t.Int(maxDepth)
			w.Fork(t, depth, 1+t.Int(2), 50, 3)
		case 2:
			w.runSteps(1 + t.Int(12))
		case 3:
			// a new address while blocks may be in flight
			ids := inst.SortedWalletIDs()
			id := ids[t.Int(len(ids))]
			if _, err := inst.Use(id, false); err == nil {
				inst.NewAddress(t.Bool(25), false)
			}
		case 4:
			w.AnnounceLoose(t)
		case 5:
			// mid-run check at a quiescent point
			if _, ok := w.S.Quiesce(20000); ok && w.AllDelivered() && len(w.S.FatalExits) == 0 {
				w.CheckLedger(inst, "C01")
				w.Stat("check.midrun")
			}
		}
		w.runSteps(t.Int(4))
		if len(w.S.FatalExits) > 0 || len(w.S.Panics) > 0 {
			break
		}
	}
	if len(w.Violations) == 0 {
		finalCheck(w, inst, "C01")
	}
	if len(w.Violations) == 0 && !inst.Dead && !w.S.CrashRequested && t.Bool(param(p, "latepct", 35)) {
		lateIssuedAddress(w, inst, "C01")
	}
	w.Sample = fmt.Sprintf("wallets=%d ops=%d height=%d blocks=%d forks=%d unconfirmed=%d knobs=%+v",
		nW, nOps, w.Node.Tip().Height, w.Stats["op.mine"], w.Stats["op.fork"], w.Stats["op.unconfirmed"], w.Knobs)
}

// lateIssuedAddress: the chain pays the wallet's NEXT address before the wallet
// has issued it (the same mnemonic is in use on another installation), in a
// transaction that also pays an address the wallet knows; the wallet then
// issues that address, and the other installation spends the coin. The wallet
// never recorded the coin (nothing rescans for one new address), so nothing is
// asserted about it while it is unspent; what must hold is that the follower
// goes on to the tip and that, the coin being spent, the ledger equals the
// chain again.
//
//go:norace
func lateIssuedAddress(w *World, inst *Instance, class string) {
	t := w.Plan
	var cands []*WalletState
	for _, id := range inst.SortedWalletIDs() {
		ws := inst.Wallets[id]
		if ws.HD != nil && !ws.Removing && !ws.Uncertain && len(ws.Issued) > 0 {
			cands = append(cands, ws)
		}
	}
	if len(cands) == 0 {
		return
	}
	ws := cands[t.Int(len(cands))]
	next := ws.Issued[len(ws.Issued)-1].Index + 1
	var hk, hf [32]byte
	copy(hk[:], ws.HD.Addr(ws.Issued[t.Int(len(ws.Issued))].Index).ScriptHash)
	copy(hf[:], ws.HD.Addr(next).ScriptHash)
	tip := w.Node.Tip()
	var src *genCoin
	for _, c := range sortedCoins(w.Gen.utxoAt(tip)) {
		if c.owner < 2 && c.cls == ClassStd && c.value > 5000000 && tip.Height+1 >= c.height && tip.Height+1-c.height >= c.lock() {
			src = c
			break
		}
	}
	if src == nil {
		return
	}
	a1, a2 := int64(1000000+t.Int(1000)), int64(2000000+t.Int(1000))
	tx := wire.NewMsgTx()
	tx.AddTxIn(wire.NewTxIn(&src.op, dummyWitness()))
	known, late := uint32(0), uint32(1)
	if t.Bool(50) {
		known, late = 1, 0
		tx.AddTxOut(wire.NewTxOut(a2, stdScript(hf)))
		tx.AddTxOut(wire.NewTxOut(a1, stdScript(hk)))
	} else {
		tx.AddTxOut(wire.NewTxOut(a1, stdScript(hk)))
		tx.AddTxOut(wire.NewTxOut(a2, stdScript(hf)))
	}
	_ = known
	if rest := src.value - a1 - a2 - 100000; rest > 0 {
		hh, _ := w.Gen.pickPayee(t, 0)
		tx.AddTxOut(wire.NewTxOut(rest, stdScript(hh)))
	}
	b := w.Gen.NewBlock(t, tip, []*wire.MsgTx{tx})
	w.Node.Attach(b)
	w.SyncTips()
	w.Announce(b)
	w.logBlock("pay-ahead", b)
	if _, ok := w.S.Quiesce(20000); !ok || !w.AllDelivered() {
		w.Violate(class+".liveness", "not quiescent after a payment to a not yet issued address: %v | wallet errors: %q", w.S.ParkedSummary(), w.RecentErrors(4))
		return
	}
	before := len(ws.Issued)
	if err := w.IssueAddress(inst, ws, false, true, class); err != nil || len(w.Violations) > 0 || len(ws.Issued) != before+1 || ws.Issued[before].Index != next {
		return
	}
	// the other installation spends the coin (in some runs only after another block)
	if t.Bool(40) {
		w.MineOnTip(t, 50)
	}
	tip = w.Node.Tip()
	op := wire.OutPoint{Hash: tx.TxHash(), Index: late}
	if _, unspent := w.Gen.utxoAt(tip)[op]; !unspent {
		return // the generator spent it already in the block just mined: same thing
	}
	tx2 := wire.NewMsgTx()
	tx2.AddTxIn(wire.NewTxIn(&op, dummyWitness()))
	hh, _ := w.Gen.pickPayee(t, 0)
	tx2.AddTxOut(wire.NewTxOut(a2-100000, stdScript(hh)))
	b2 := w.Gen.NewBlock(t, tip, []*wire.MsgTx{tx2})
	w.Node.Attach(b2)
	w.SyncTips()
	w.Announce(b2)
	w.logBlock("spend-of-late-address-coin", b2)
	w.Stat("probe.coin_of_late_issued_address_spent")
	finalCheck(w, inst, class)
}
