package sim

// SimDB: a transparent wrapper around the real wallet database (ldb on a
// SimDisk). It is where goroutines park (begin / commit / gated reads), where
// the process-wide writer lock is simulated, where commits are counted (crash
// points) and where storage-call faults are injected.

import (
	"errors"
	"runtime"
	"strings"

	mwdb "massnet.org/mass-wallet/masswallet/db"
)

var ErrInjectedDB = errors.New("sim: injected wallet database error")

type SimDB struct {
	inner mwdb.DB
	S     *Sched
	Inst  *Instance

	mu       hmu
	Commits  int // successful write commits
	Calls    int // counted storage calls (begin/get/put/delete/iter/commit) since ArmReset
	CallLog  []string
	LogCalls bool

	// fault plan: fail the FailAt-th counted call; Sticky keeps failing until Heal.
	FailAt     int
	Sticky     bool
	Fired      int
	FiredKinds map[string]int
	Counting   bool // only count calls while true (during the operation under test)

	// crash plan: after the CrashAtCommit-th successful commit the instance dies.
	CrashAtCommit  int
	Closed         bool
	PostCommitGate bool // followers park once more right after a successful commit (C17)
	DiskCommit     bool // the addressed commit fails through a storage write error of goleveldb instead of at this layer
	DiskFaults     int
	FirstSite      string // wallet functions on the stack of the first failed call
	// OnCommit is called after every successful commit (invariant monitors).
	OnCommit func(n int)
}

//go:norace
func NewSimDB(inner mwdb.DB, s *Sched, inst *Instance) *SimDB {
	return &SimDB{inner: inner, S: s, Inst: inst, FiredKinds: map[string]int{}}
}

// fault decides whether the current call fails.
//
//go:norace
func (d *SimDB) fault(kind string) bool {
	d.S.Work()
	d.mu.Lock()
	defer d.mu.Unlock()
	if !d.Counting {
		return false
	}
	d.Calls++
	if d.LogCalls {
		d.CallLog = append(d.CallLog, kind)
	}
	if d.FailAt > 0 && (d.Calls == d.FailAt || (d.Sticky && d.Calls > d.FailAt)) {
		if d.DiskCommit && kind != "commit" {
			return false // disk mode: only commits fail, and they fail below the wallet-db layer
		}
		d.Fired++
		d.FiredKinds[kind]++
		if d.FirstSite == "" {
			d.FirstSite = callSite()
		}
		return true
	}
	return false
}

//go:norace
func (d *SimDB) Heal() {
	d.mu.Lock()
	d.FailAt = 0
	d.Sticky = false
	d.mu.Unlock()
}

//go:norace
func (d *SimDB) Close() error {
	err := d.inner.Close()
	d.mu.Lock()
	d.Closed = true
	d.mu.Unlock()
	return err
}

//go:norace
func (d *SimDB) BeginTx() (mwdb.DBTransaction, error) {
	g := d.S.Current()
	if d.fault("begin") {
		return nil, ErrInjectedDB
	}
	// The wait for the writer lock happens inside the real BeginTx, at the
	// hook ldb calls right before muTr.Lock() (writerLockGate below): the
	// caller parks there until the simulated lock is free. Whatever BeginTx
	// does before taking the lock therefore really runs while another
	// writer holds it.
	d.S.mu.Lock()
	d.S.beginVia[goid()] = true
	d.S.mu.Unlock()
	tx, err := d.inner.BeginTx()
	if err != nil {
		d.S.dbLockRelease(g)
		return nil, err
	}
	return &simTx{d: d, w: tx, r: tx, g: g}, nil
}

// writerLockGate is installed as ldb.SimBeforeWriterLock. Only calls that come
// through a SimDB are gated (C11 drives ldb directly from one goroutine).
//
//go:norace
func writerLockGate() {
	worldMu.Lock()
	w := currentWorld
	worldMu.Unlock()
	if w == nil {
		return
	}
	s := w.S
	id := goid()
	s.mu.Lock()
	via := s.beginVia[id]
	delete(s.beginVia, id)
	g := s.gs[id]
	s.mu.Unlock()
	if !via {
		return
	}
	if g != nil {
		s.Gate("db.begin")
	} else {
		s.dbLockRoot()
	}
}

//go:norace
func (d *SimDB) BeginReadTx() (mwdb.ReadTransaction, error) {
	g := d.S.Current()
	// reads of the store synchronise inside goleveldb (mutexes, sequence
	// atomics). The wallet must not be credited with that: between two store
	// calls another goroutine could run where none of it has happened yet.
	// Only the writer lock (BeginTx) and the commit keep their ordering.
	raceOff()
	rtx, err := d.inner.BeginReadTx()
	raceOn()
	if err != nil {
		return nil, err
	}
	t := &simTx{d: d, r: rtx, g: g, readOnly: true}
	if g != nil && g.gateReads {
		t.gated = true
		if d.Inst == nil || !d.Inst.walletMutexHeld() {
			d.S.Gate("db.read.begin")
		}
	}
	return t, nil
}

type readTx interface {
	TopLevelBucket(name string) mwdb.Bucket
	FetchBucket(meta mwdb.BucketMeta) mwdb.Bucket
	BucketNames() ([]string, error)
	Rollback() error
}

type simTx struct {
	d        *SimDB
	w        mwdb.DBTransaction
	r        readTx
	g        *G
	readOnly bool
	gated    bool
	finished bool
}

//go:norace
func (t *simTx) wrap(b mwdb.Bucket) mwdb.Bucket {
	if b == nil {
		return nil
	}
	return &simBucket{t: t, b: b}
}

//go:norace
func (t *simTx) TopLevelBucket(name string) mwdb.Bucket {
	raceOff()
	defer raceOn()
	return t.wrap(t.r.TopLevelBucket(name))
}

//go:norace
func (t *simTx) FetchBucket(meta mwdb.BucketMeta) mwdb.Bucket {
	raceOff()
	defer raceOn()
	return t.wrap(t.r.FetchBucket(meta))
}

//go:norace
func (t *simTx) BucketNames() ([]string, error) {
	raceOff()
	defer raceOn()
	return t.r.BucketNames()
}

//go:norace
func (t *simTx) CreateTopLevelBucket(name string) (mwdb.Bucket, error) {
	raceOff()
	b, err := t.w.CreateTopLevelBucket(name)
	raceOn()
	if err != nil {
		return nil, err
	}
	return t.wrap(b), nil
}

//go:norace
func (t *simTx) DeleteTopLevelBucket(name string) error {
	raceOff()
	defer raceOn()
	return t.w.DeleteTopLevelBucket(name)
}

//go:norace
func (t *simTx) Rollback() error {
	if t.readOnly {
		// releasing the snapshot: store-internal synchronisation, see BeginReadTx
		raceOff()
		defer raceOn()
		return t.r.Rollback()
	}
	if t.finished {
		return nil
	}
	t.finished = true
	err := t.w.Rollback()
	t.d.S.dbLockRelease(t.g)
	return err
}

//go:norace
func (t *simTx) Commit() error {
	if t.readOnly {
		return nil
	}
	if t.finished {
		return errors.New("sim: commit of a finished transaction")
	}
	if t.g != nil {
		t.d.S.Gate("db.commit")
	}
	if t.d.fault("commit") {
		t.finished = true
		if t.d.DiskCommit && t.d.Inst != nil {
			// the commit fails where it fails in production: the storage write
			// of goleveldb's journal returns an error (half of the time after
			// a short write), and the real commit path of ldb deals with it
			disk := t.d.Inst.Disk
			disk.mu.Lock()
			disk.FailWriteAt, disk.FailErr, disk.ShortWrite = disk.Writes+1, ErrInjectedDB, t.d.Calls%2 == 0
			disk.mu.Unlock()
			err := t.w.Commit()
			disk.mu.Lock()
			disk.FailWriteAt, disk.ShortWrite = 0, false // the medium works again
			disk.mu.Unlock()
			if err == nil {
				// nothing reached the disk (an empty batch): the commit stands
				t.d.mu.Lock()
				t.d.Commits++
				t.d.mu.Unlock()
			} else {
				t.d.mu.Lock()
				t.d.DiskFaults++
				t.d.mu.Unlock()
			}
			t.d.S.dbLockRelease(t.g)
			return err
		}
		_ = t.w.Rollback()
		t.d.S.dbLockRelease(t.g)
		return ErrInjectedDB
	}
	t.finished = true
	err := t.w.Commit()
	d := t.d
	crash := false
	if err == nil {
		d.mu.Lock()
		d.Commits++
		n := d.Commits
		crash = d.CrashAtCommit > 0 && n == d.CrashAtCommit
		cb := d.OnCommit
		d.mu.Unlock()
		if cb != nil {
			cb(n)
		}
	}
	d.S.dbLockRelease(t.g)
	if err == nil && !crash && d.PostCommitGate && t.g != nil && (t.g.Role == RoleHandler || t.g.Role == RoleWorker) {
		// the commit is in the store, the follower has not yet brought its
		// in-memory copies (tip, pending set) up to date: a window of its own
		d.S.Gate("db.committed")
	}
	if crash {
		d.S.mu.Lock()
		d.S.CrashRequested = true
		if d.Inst != nil {
			d.Inst.Dead = true
		}
		d.S.mu.Unlock()
		if t.g != nil {
			d.S.Abandon()
		}
	}
	return err
}

type simBucket struct {
	t *simTx
	b mwdb.Bucket
}

//go:norace
func (b *simBucket) readGate(what string) {
	if b.t.gated && b.t.g != nil {
		if inst := b.t.d.Inst; inst != nil && inst.walletMutexHeld() {
			return // never park inside a critical section of the wallet
		}
		b.t.d.S.Gate("db.read." + what)
	}
}

//go:norace
func (b *simBucket) NewBucket(name string) (mwdb.Bucket, error) {
	raceOff()
	nb, err := b.b.NewBucket(name)
	raceOn()
	if err != nil {
		return nil, err
	}
	return &simBucket{t: b.t, b: nb}, nil
}

//go:norace
func (b *simBucket) Bucket(name string) mwdb.Bucket {
	raceOff()
	nb := b.b.Bucket(name)
	raceOn()
	if nb == nil {
		return nil
	}
	return &simBucket{t: b.t, b: nb}
}

//go:norace
func (b *simBucket) BucketNames() ([]string, error) {
	raceOff()
	defer raceOn()
	return b.b.BucketNames()
}

//go:norace
func (b *simBucket) DeleteBucket(name string) error {
	raceOff()
	defer raceOn()
	return b.b.DeleteBucket(name)
}

//go:norace
func (b *simBucket) Put(key, value []byte) error {
	if b.t.d.fault("put") {
		return ErrInjectedDB
	}
	raceOff()
	defer raceOn()
	return b.b.Put(key, value)
}

//go:norace
func (b *simBucket) Delete(key []byte) error {
	if b.t.d.fault("delete") {
		return ErrInjectedDB
	}
	raceOff()
	defer raceOn()
	return b.b.Delete(key)
}

//go:norace
func (b *simBucket) Get(key []byte) ([]byte, error) {
	b.readGate("get")
	if b.t.d.fault("get") {
		return nil, ErrInjectedDB
	}
	raceOff()
	defer raceOn()
	return b.b.Get(key)
}

//go:norace
func (b *simBucket) Clear() error {
	raceOff()
	defer raceOn()
	return b.b.Clear()
}

//go:norace
func (b *simBucket) GetByPrefix(p []byte) ([]*mwdb.Entry, error) {
	b.readGate("prefix")
	if b.t.d.fault("get") {
		return nil, ErrInjectedDB
	}
	raceOff()
	defer raceOn()
	return b.b.GetByPrefix(p)
}

//go:norace
func (b *simBucket) GetBucketMeta() mwdb.BucketMeta {
	raceOff()
	defer raceOn()
	return b.b.GetBucketMeta()
}

//go:norace
func (b *simBucket) NewIterator(slice *mwdb.Range) mwdb.Iterator {
	b.readGate("iter")
	raceOff()
	it := b.b.NewIterator(slice)
	raceOn()
	return &simIter{b: b, it: it}
}

type simIter struct {
	b      *simBucket
	it     mwdb.Iterator
	failed bool
}

//go:norace
func (i *simIter) Release() { raceOff(); i.it.Release(); raceOn() }

//go:norace
func (i *simIter) Error() error {
	if i.failed {
		return ErrInjectedDB
	}
	return i.it.Error()
}

//go:norace
func (i *simIter) Seek(key []byte) bool {
	i.b.readGate("seek")
	if i.failed {
		return false
	}
	raceOff()
	defer raceOn()
	return i.it.Seek(key)
}

//go:norace
func (i *simIter) Next() bool {
	i.b.readGate("next")
	if i.failed {
		return false
	}
	if i.b.t.d.fault("iter") {
		i.failed = true
		return false
	}
	raceOff()
	defer raceOn()
	return i.it.Next()
}

//go:norace
func (i *simIter) Key() []byte {
	raceOff()
	defer raceOn()
	return i.it.Key()
}

//go:norace
func (i *simIter) Value() []byte {
	raceOff()
	defer raceOn()
	return i.it.Value()
}

// callSite returns the innermost wallet-code frames of the caller (function
// names only), used to tell injected-fault findings apart by call site.
//
//go:norace
func callSite() string {
	pcs := make([]uintptr, 24)
	n := runtime.Callers(3, pcs)
	frames := runtime.CallersFrames(pcs[:n])
	var out []string
	for {
		f, more := frames.Next()
		name := f.Function
		if strings.Contains(name, "massnet.org/mass-wallet/masswallet") && !strings.Contains(name, "/db.") {
			if i := strings.LastIndex(name, "/"); i >= 0 {
				name = name[i+1:]
			}
			out = append(out, name)
			if len(out) >= 3 {
				break
			}
		}
		if !more {
			break
		}
	}
	return strings.Join(out, " <- ")
}
