package sim

import (
	"errors"
	"fmt"

	mwdb "massnet.org/mass-wallet/masswallet/db"
)

//go:norace
func init() { Runners["C18"] = runC18 }

// runC18: storage-fault enumeration. A short generated history contains one
// focus operation; in the fault-free twin the wallet-database calls made while
// that operation (and the background work it triggers) runs are counted; the
// driver then re-runs the same tapes once per call index j with that call
// failing (param failj; sticky=1 keeps every later call failing until the
// operation is over). After healing, the operation is repeated if it reported
// failure, the chain moves on by one block, and the end state must equal the
// fault-free behaviour (ledger model, acknowledged wallet set, finished tasks,
// no skipped or duplicated address index).
//
//go:norace
func runC18(w *World, p map[string]int) {
	t := w.Plan
	k := drawKnobs(w)
	k.GapLimit = 20
	k.NodeGates = false
	w.SetKnobs(k)
	inst := w.NewInstance("A")
	if err := inst.Open(); err != nil {
		w.Violate("C18.harness", "%v", err)
		return
	}
	nW := 2 + t.Int(2)
	if err := setupWallets(w, inst, nW); err != nil {
		w.Violate("C18.setup", "%v", err)
		return
	}
	if err := inst.StartSolo(); err != nil {
		w.Violate("C18.start", "Start: %v", err)
		return
	}
	failj := param(p, "failj", 0)
	sticky := param(p, "sticky", 0) == 1
	// disk=1: the addressed call fails only if it is a commit, and it fails
	// below the wallet-db layer: goleveldb's journal write returns an error
	diskMode := param(p, "disk", 0) == 1
	cc := &crashCtx{}
	// warm-up history
	pre := 2 + t.Int(param(p, "pre", 10))
	for i := 0; i < pre; i++ {
		switch t.Weighted([]int{10, 2, 2}) {
		case 0:
			w.MineOnTip(t, 70)
		case 1:
			w.Fork(t, 1+t.Int(3), 1, 50, 1)
		case 2:
			w.AnnounceLoose(t)
		}
		w.runSteps(t.Int(6))
	}
	if !quiesceAll(w, "C18", 30000) {
		return
	}
	// a removed wallet to re-import (for the import focus operations)
	focus := t.Weighted([]int{5, 4, 4, 3, 4, 3, 3})
	names := []string{"block-connect", "reorg", "new-address", "create-wallet", "remove-wallet", "import-mnemonic", "import-keystore"}
	var spare *WalletState
	var spareJSON string
	if focus == 5 || focus == 6 {
		ids := liveWallets(inst)
		spare = inst.Wallets[ids[t.Int(len(ids))]]
		if focus == 6 {
			js, err := inst.ExportWallet(spare.ID, spare.Pass, true)
			if err != nil {
				w.Violate("C18.harness", "export: %v", err)
				return
			}
			spareJSON = js
		}
		if err := inst.RemoveWallet(spare.ID, spare.Pass, true); err != nil {
			w.Violate("C18.harness", "remove: %v", err)
			return
		}
		if !quiesceAll(w, "C18", 30000) || !w.walletGone(inst, spare.ID) {
			if len(w.Violations) == 0 {
				w.Violate("C18.harness", "removal in the fault-free prefix did not finish")
			}
			return
		}
		delete(inst.Wallets, spare.ID)
	}
	db := inst.DB
	// ---- the focus operation under the fault ----
	np := len(w.S.Panics)
	db.mu.Lock()
	db.Calls, db.Counting, db.FailAt, db.Sticky = 0, true, failj, sticky
	db.DiskCommit = diskMode
	db.FirstSite = ""
	db.LogCalls = failj == 0
	db.CallLog = nil
	db.mu.Unlock()
	var opErr error
	var newWS *WalletState
	w.FatalIsCrash = true
	doFocus := func(solo bool) {
		opErr = nil
		switch focus {
		case 0:
			w.MineOnTip(t, 70)
		case 1:
			w.Fork(t, 1+t.Int(3), 1, 50, 0)
		case 2:
			ids := liveWallets(inst)
			ws := inst.Wallets[ids[0]]
			if _, err := inst.Use(ws.ID, true); err != nil {
				opErr = err
				return
			}
			_, opErr = inst.NewAddress(false, true)
		case 3:
			newWS, opErr = inst.CreateWallet("focusPass1", 128, true)
		case 4:
			ids := liveWallets(inst)
			ws := inst.Wallets[ids[len(ids)-1]]
			opErr = inst.RemoveWallet(ws.ID, ws.Pass, true)
		case 5:
			newWS, opErr = inst.ImportMnemonic(spare, uint32(len(spare.Issued)), true)
		case 6:
			newWS, opErr = inst.ImportKeystore(spare, spareJSON, true)
		}
	}
	doFocus(true)
	// background work triggered by the operation (block processing, import
	// batches, removal rounds) runs under the same fault
	w.S.Quiesce(4000)
	db.mu.Lock()
	calls := db.Calls
	fired := db.Fired
	kinds := map[string]int{}
	for k2, v := range db.FiredKinds {
		kinds[k2] = v
	}
	var log []string
	if db.LogCalls {
		log = db.CallLog
	}
	db.Counting, db.FailAt, db.Sticky, db.LogCalls = false, 0, false, false
	diskFaults := db.DiskFaults
	db.DiskCommit = false
	db.mu.Unlock()
	if diskMode {
		w.Stats["fault.disk_write_error_in_commit"] += diskFaults
	}
	if failj == 0 {
		w.Extra["calls"] = calls
		hist := map[string]int{}
		for _, c := range log {
			hist[c]++
		}
		w.Extra["call_kinds"] = hist
	}
	for k2, v := range kinds {
		w.Stats["fault.db_"+k2+"_error"] += v
	}
	if fired > 0 {
		w.Stat("probe.fault_fired")
		if sticky {
			w.Stat("probe.sticky_fault_fired")
		}
	}
	firstKind := ""
	for _, kk := range []string{"begin", "get", "put", "delete", "iter", "commit"} {
		if kinds[kk] > 0 && firstKind == "" {
			firstKind = kk
		}
	}
	if sticky && fired > 0 {
		firstKind = "sticky"
	}
	what := fmt.Sprintf("%s with wallet-db call #%d (%s) failing at [%s] (sticky=%v, %d calls in the fault-free run)", names[focus], failj, firstKind, db.FirstSite, sticky, calls)
	if len(w.S.Panics) > np {
		w.Violate("C18.panic", "%s: %s", what, firstLines(w.S.Panics[np], 30))
		return
	}
	if len(w.S.FatalExits) > 0 {
		// fail-stop: the wallet ended the process on purpose (logging FATAL).
		// That is a report of failure; what the property still demands is
		// that the restarted process, with storage working again, ends in
		// the fault-free state.
		if fired == 0 {
			w.Violate("C18.follower-died", "%s: process ended through logging FATAL without any injected fault: %s", what, firstLines(w.S.FatalExits[0], 30))
			return
		}
		w.Stat("probe.fail_stop_on_storage_error")
		what += " [process ended itself through logging FATAL and was restarted]"
		w.S.mu.Lock()
		w.S.FatalExits = nil
		w.S.mu.Unlock()
		if err := w.RecoverCrash(inst, nil); err != nil {
			w.Violate("C18.restart-failed", "%s: %v | wallet errors: %q", what, err, w.RecentErrors(4))
			return
		}
		if errors.Is(opErr, ErrCrashed) {
			// the process ended inside the client call itself: whether the
			// call took effect is unknown to the client; not decided here
			// (C06 covers unacknowledged operations across a process death)
			w.Stat("probe.fail_stop_inside_client_call_not_decided")
			return
		}
	}
	w.FatalIsCrash = false
	// ---- the medium works again. Does the store? ----
	storeStayedFailed := ""
	if diskMode && diskFaults > 0 && !inst.Dead && inst.WM != nil {
		perr := mwdb.Update(inst.DB, func(tx mwdb.DBTransaction) error {
			b := tx.TopLevelBucket("zzprobe")
			if b == nil {
				var e error
				if b, e = tx.CreateTopLevelBucket("zzprobe"); e != nil {
					return e
				}
			}
			return b.Put([]byte("k"), []byte{byte(failj)})
		})
		if perr != nil {
			// goleveldb's journal writer keeps its first error: every later
			// commit fails until the database is reopened. Recorded (known
			// finding) at the end of the run; the process is restarted, as
			// an operator would, and the rest of the property is checked
			storeStayedFailed = fmt.Sprintf("%s: after the one failed storage write the medium accepts writes again, but the store refuses every later write transaction (%v) until the process is restarted [goleveldb journal writer keeps its first error; ldb does not reopen]", what, perr)
			w.Stat("probe.store_stays_failed_until_restart")
			w.S.Quiesce(2000)
			w.S.mu.Lock()
			w.S.FatalExits = nil
			w.S.mu.Unlock()
			if err := w.RecoverCrash(inst, nil); err != nil {
				w.Violate("C18.restart-failed", "%s: restart after the store stayed failed: %v | wallet errors: %q", what, err, w.RecentErrors(4))
				return
			}
			if errors.Is(opErr, ErrCrashed) {
				return
			}
		}
	}
	defer func() {
		if storeStayedFailed != "" && len(w.Violations) == 0 {
			w.Violate("C18.store-stays-failed", "%s", storeStayedFailed)
		}
	}()
	// ---- storage works again: repeat what reported failure ----
	if opErr != nil && fired > 0 {
		w.Stat("probe.operation_reported_failure")
		prev := opErr
		if focus >= 2 {
			doFocus(true)
			if opErr != nil {
				w.Violate("C18.retry-failed", "%s: the operation failed (%v) and repeating it after storage works again fails too: %v", what, prev, opErr)
				return
			}
			w.Stat("check.retry_succeeded")
		}
	} else if opErr != nil {
		// refused without any injected fault: a harness expectation problem, not a verdict on the wallet
		w.Stat("probe.focus_refused_without_fault")
	}
	switch focus {
	case 3, 5, 6:
		if newWS != nil && (focus == 5 || focus == 6) {
			newWS.Issued = spare.Issued
			w.Gen.AddWalletParty(newWS)
		}
		if newWS != nil && focus == 3 {
			if _, e := inst.Use(newWS.ID, true); e == nil {
				inst.NewAddress(false, true)
			}
		}
	}
	// the chain moves on: a failed block is picked up through the next tip
	w.MineOnTip(t, 70)
	post := t.Int(4)
	for i := 0; i < post; i++ {
		if t.Bool(25) {
			w.Fork(t, 1+t.Int(2), 1, 50, 1)
		} else {
			w.MineOnTip(t, 70)
		}
		w.runSteps(t.Int(5))
	}
	w.CheckInstance(inst, "C18", cc)
	if len(w.Violations) > 0 {
		// make the cause visible in the class-stable detail
		for i := range w.Violations {
			w.Violations[i].Detail = what + ": " + w.Violations[i].Detail
		}
		return
	}
	// address indexes: no skipped or duplicated index after a failed NewAddress
	if focus == 2 {
		ids := liveWallets(inst)
		ws := inst.Wallets[ids[0]]
		if err := w.IssueAddress(inst, ws, false, true, "C18"); err != nil && len(w.Violations) == 0 {
			w.Stat("probe.post_fault_issue_refused")
		}
		if len(w.Violations) > 0 {
			v := &w.Violations[len(w.Violations)-1]
			v.Detail = what + ": " + v.Detail
		}
	}
	w.Stat("check.c18_end_state")
	w.Sample = fmt.Sprintf("C18 focus=%s failj=%d sticky=%v calls=%d fired=%d kinds=%v opErr=%v", names[focus], failj, sticky, calls, fired, kinds, opErr)
}
