package sim

// SimDisk: an in-memory goleveldb storage.Storage owned by the simulator. It
// records every byte ever written (tape), counts writes, can fail calls, and
// produces crash images (all completed writes survive a process crash; the
// write in flight can be torn).

import (
	"bytes"
	"errors"
	"io"
	"os"
	"sort"

	"github.com/syndtr/goleveldb/leveldb/storage"
)

var (
	ErrDiskIO   = errors.New("sim: injected disk I/O error")
	ErrDiskFull = errors.New("sim: injected disk full")
)

type memFile struct {
	data   []byte
	synced int
	open   bool
}

type SimDisk struct {
	mu     hmu
	files  map[storage.FileDesc]*memFile
	meta   storage.FileDesc
	locked bool
	closed bool

	Tape     bytes.Buffer // every byte ever written to any file
	KeepTape bool
	Writes   int // completed Write calls
	Syncs    int

	// fault plan
	FailWriteAt  int // fail the n-th write (1-based) with FailErr; 0 = never
	FailErr      error
	FailSticky   bool
	ShortWrite   bool // the failing write stores half of its bytes first
	CrashAtWrite int  // the n-th write is torn at TornAt bytes and the process "dies"
	TornAt       int
	CrashOnlyG   int64  // when set, only writes of this goroutine can be the crash write
	OnCrash      func() // called (in the writing goroutine) when the crash write happens; must not return
	Fired        map[string]int
}

//go:norace
func NewSimDisk() *SimDisk {
	return &SimDisk{files: map[storage.FileDesc]*memFile{}, Fired: map[string]int{}}
}

// CrashImage returns the disk as a process crash leaves it.
//
//go:norace
func (d *SimDisk) CrashImage() *SimDisk {
	d.mu.Lock()
	defer d.mu.Unlock()
	n := NewSimDisk()
	n.KeepTape = d.KeepTape
	for fd, f := range d.files {
		n.files[fd] = &memFile{data: append([]byte(nil), f.data...), synced: len(f.data)}
	}
	n.meta = d.meta
	if d.KeepTape {
		n.Tape.Write(d.Tape.Bytes())
	}
	return n
}

// PowerLossImage drops everything after the last sync of each file
// (exploration only; the wallet never syncs its journal).
//
//go:norace
func (d *SimDisk) PowerLossImage() *SimDisk {
	d.mu.Lock()
	defer d.mu.Unlock()
	n := NewSimDisk()
	for fd, f := range d.files {
		n.files[fd] = &memFile{data: append([]byte(nil), f.data[:f.synced]...), synced: f.synced}
	}
	n.meta = d.meta
	return n
}

//go:norace
func (d *SimDisk) TotalBytes() int {
	d.mu.Lock()
	defer d.mu.Unlock()
	t := 0
	for _, f := range d.files {
		t += len(f.data)
	}
	return t
}

// AllBytes returns the current content of all files (sorted), for scanning.
//
//go:norace
func (d *SimDisk) AllBytes() []byte {
	d.mu.Lock()
	defer d.mu.Unlock()
	var fds []storage.FileDesc
	for fd := range d.files {
		fds = append(fds, fd)
	}
	sort.Slice(fds, func(i, j int) bool {
		if fds[i].Type != fds[j].Type {
			return fds[i].Type < fds[j].Type
		}
		return fds[i].Num < fds[j].Num
	})
	var out []byte
	for _, fd := range fds {
		out = append(out, d.files[fd].data...)
	}
	return out
}

type diskLock struct{ d *SimDisk }

//go:norace
func (l *diskLock) Unlock() {
	l.d.mu.Lock()
	l.d.locked = false
	l.d.mu.Unlock()
}

//go:norace
func (d *SimDisk) Lock() (storage.Locker, error) {
	d.mu.Lock()
	defer d.mu.Unlock()
	if d.locked {
		return nil, storage.ErrLocked
	}
	d.locked = true
	return &diskLock{d}, nil
}

//go:norace
func (d *SimDisk) Log(str string) {}

//go:norace
func (d *SimDisk) SetMeta(fd storage.FileDesc) error {
	d.mu.Lock()
	defer d.mu.Unlock()
	d.meta = fd
	return nil
}

//go:norace
func (d *SimDisk) GetMeta() (storage.FileDesc, error) {
	d.mu.Lock()
	defer d.mu.Unlock()
	if d.meta.Zero() {
		return storage.FileDesc{}, os.ErrNotExist
	}
	return d.meta, nil
}

//go:norace
func (d *SimDisk) List(ft storage.FileType) ([]storage.FileDesc, error) {
	d.mu.Lock()
	defer d.mu.Unlock()
	var fds []storage.FileDesc
	for fd := range d.files {
		if fd.Type&ft != 0 {
			fds = append(fds, fd)
		}
	}
	sort.Slice(fds, func(i, j int) bool {
		if fds[i].Type != fds[j].Type {
			return fds[i].Type < fds[j].Type
		}
		return fds[i].Num < fds[j].Num
	})
	return fds, nil
}

type diskReader struct {
	*bytes.Reader
	f *memFile
	d *SimDisk
}

//go:norace
func (r *diskReader) Close() error { return nil }

//go:norace
func (d *SimDisk) Open(fd storage.FileDesc) (storage.Reader, error) {
	d.mu.Lock()
	defer d.mu.Unlock()
	f, ok := d.files[fd]
	if !ok {
		return nil, os.ErrNotExist
	}
	return &diskReader{Reader: bytes.NewReader(f.data[:len(f.data):len(f.data)]), f: f, d: d}, nil
}

type diskWriter struct {
	d  *SimDisk
	f  *memFile
	fd storage.FileDesc
}

//go:norace
func (w *diskWriter) Write(p []byte) (int, error) {
	d := w.d
	d.mu.Lock()
	n := d.Writes + 1
	if d.CrashAtWrite > 0 && n == d.CrashAtWrite && d.CrashOnlyG != 0 && goid() != d.CrashOnlyG {
		// the addressed write belongs to a background goroutine of goleveldb
		// (compaction): the crash callback unwinds the foreground goroutine, so
		// the crash moves on to the next write
		d.CrashAtWrite = n + 1
	}
	if d.CrashAtWrite > 0 && n == d.CrashAtWrite {
		cut := d.TornAt
		if cut > len(p) {
			cut = len(p)
		}
		w.f.data = append(w.f.data, p[:cut]...)
		if d.KeepTape {
			d.Tape.Write(p[:cut])
		}
		d.Writes = n
		d.Fired["crash_torn_write"]++
		cb := d.OnCrash
		d.mu.Unlock()
		if cb != nil {
			cb() // never returns
		}
		return cut, io.ErrShortWrite
	}
	if d.FailWriteAt > 0 && (n == d.FailWriteAt || (d.FailSticky && n > d.FailWriteAt)) {
		wrote := 0
		if d.ShortWrite {
			wrote = len(p) / 2
			w.f.data = append(w.f.data, p[:wrote]...)
			if d.KeepTape {
				d.Tape.Write(p[:wrote])
			}
			d.Fired["short_write"]++
		} else {
			d.Fired["write_error"]++
		}
		d.Writes = n
		err := d.FailErr
		d.mu.Unlock()
		if err == nil {
			err = ErrDiskIO
		}
		return wrote, err
	}
	w.f.data = append(w.f.data, p...)
	if d.KeepTape {
		d.Tape.Write(p)
	}
	d.Writes = n
	d.mu.Unlock()
	return len(p), nil
}

//go:norace
func (w *diskWriter) Sync() error {
	w.d.mu.Lock()
	w.f.synced = len(w.f.data)
	w.d.Syncs++
	w.d.mu.Unlock()
	return nil
}

//go:norace
func (w *diskWriter) Close() error {
	w.d.mu.Lock()
	w.f.open = false
	w.d.mu.Unlock()
	return nil
}

//go:norace
func (d *SimDisk) Create(fd storage.FileDesc) (storage.Writer, error) {
	d.mu.Lock()
	defer d.mu.Unlock()
	f := &memFile{open: true}
	d.files[fd] = f
	return &diskWriter{d: d, f: f, fd: fd}, nil
}

//go:norace
func (d *SimDisk) Remove(fd storage.FileDesc) error {
	d.mu.Lock()
	defer d.mu.Unlock()
	if _, ok := d.files[fd]; !ok {
		return os.ErrNotExist
	}
	delete(d.files, fd)
	return nil
}

//go:norace
func (d *SimDisk) Rename(oldfd, newfd storage.FileDesc) error {
	d.mu.Lock()
	defer d.mu.Unlock()
	f, ok := d.files[oldfd]
	if !ok {
		return os.ErrNotExist
	}
	delete(d.files, oldfd)
	d.files[newfd] = f
	return nil
}

//go:norace
func (d *SimDisk) Close() error {
	d.mu.Lock()
	defer d.mu.Unlock()
	d.closed = true
	return nil
}
