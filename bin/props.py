"""Per-property configuration of the simulation checks (budgets, rules)."""

COMPONENTS = {
    "real": [
        "masswallet (wallet.go, tx.go, common.go, ntfnshandler.go, task.go, utxo_selector.go, utils)",
        "masswallet/txmgr", "masswallet/keystore (+hdkeychain, snacl, zero)", "masswallet/db",
        "masswallet/db/ldb", "masswallet/ifc", "goleveldb (journal, memtable, recovery, compaction) on the simulated disk",
        "mass-core wire, txscript, massutil, consensus, blockchain.TxPool (empty instance), btcec",
    ],
    "stub": [
        "node: SimNode implements the 10 database.Db methods the wallet's ChainFetcher forwards to; block delivery through the registered listener",
        "blockchain.Blockchain / netsync.SyncManager: zero values with bestNode/listeners/peers filled through reflect",
        "gRPC/TLS/HTTP transport, loader.go, mass.go, server.go (sockets): not run",
        "disk: in-memory goleveldb storage.Storage (SimDisk)",
    ],
}

COMMON_ASSUMPTIONS = [
    "The node is a stub honouring the contract transcribed from mass-core database/ldb and blockchain/addrindexer (DESIGN.md appendix A); block validation, p2p and the node's own database are not exercised.",
    "Generated chains respect the consensus rules the node enforces (coinbase maturity, sequence locks, legal output script classes, no binding input together with a binding output).",
    "Crash model is a process stop: every completed storage write survives; power loss is not claimed.",
    "Go map iteration order inside the wallet cannot be seeded; observations are canonicalised (sorted) before comparison and scheduler decisions never depend on map order.",
    "Seeded search samples schedules, histories and faults; a clean batch is evidence, not proof.",
]

PROPS = {
    "C01": {
        "level": "exploration",
        "quick_runs": 4000, "thorough_runs": 120000, "chunk": 125,
        "thorough_params": {"ops": 120, "maxdepth": 12},
        "nontrivial_stat": "check.ledger.nonempty",
        "rule": "one run = 1-3 wallets on one simulated node; 4..N generated environment operations (mine a block with "
                "coinbase/standard/staking/binding payments and spends incl. in-block spend chains and transactions "
                "shared by wallets; fork of depth 1..D applied to the node step by step with rolled-back transactions "
                "re-mined, dropped or double-spent; unconfirmed announcements; new addresses while blocks are queued) "
                "interleaved with scheduler steps that decide when each queued tip is delivered relative to further "
                "chain changes and where chain changes land between the handler's chain reads and its commit. "
                "Oracle: at quiescence with all tips delivered, the API observation of every wallet equals the ledger "
                "model recomputed from the best chain. Non-trivial = at least one ledger comparison with a non-empty "
                "coin set; distinct = distinct (schedule trace hash, plan length).",
    },
    "C20": {
        "level": "exploration",
        "quick_runs": 4000, "thorough_runs": 150000, "chunk": 125,
        "thorough_params": {"ops": 60},
        "nontrivial_stat": "gate.handle.select",
        "rule": "one run = 2-3 wallets, generated mining/forks, wallet removals (right and wrong passphrase, solo or "
                "interleaved), re-imports of removed wallets, then (65% of runs) a Stop whose close(quit) is placed by the "
                "schedule tape relative to block processing, the suspend/resume hand-shake, removal rounds and queue "
                "operations; after the stop request a fair drain must make Stop return with the database closed "
                "(deadlock predicate = nothing enabled while Stop has not returned; no wall-clock timeout). Runs without "
                "a stop check liveness: every announced tip processed, every accepted task finished, all wallets ready. "
                "Non-trivial = the handler loop was released at least once; distinct = distinct (schedule trace hash, plan length).",
    },
    "C06": {
        "level": "fault_enumeration",
        "quick_runs": 160, "thorough_runs": 2500, "chunk": 2,
        "enum": "crashk:commits:400,crashw:writes:80",
        "params": {"ops": 18},
        "thorough_params": {"ops": 40, "crashk2max": 12},
        "nontrivial_stat": "probe.crash_recovered",
        "rule": "one sampled history = 1-3 wallets, generated mining/forks/new addresses/wallet removals/re-imports/"
                "wallet creations with the schedule tape interleaving the handler, the worker and API calls. The "
                "fault-free twin counts its n wallet-db commits after set-up; then for EVERY k in 1..n the same tapes are "
                "re-run with the process killed right after commit k (all goroutines and volatile state abandoned, "
                "crash image of the simulated disk reopened, NewWalletManager+Start with catch-up, background tasks "
                "resumed), the remaining history continues, and at quiescence the wallet set must be what was "
                "acknowledged (in-flight operations all-or-nothing) and every wallet must equal the ledger model of "
                "the best chain, i.e. the state of a run that never stopped. thorough adds a second crash in the "
                "restarted incarnation. Non-trivial = a run in which the crash fired and recovery ran; distinct = "
                "distinct (schedule trace hash, plan length).",
    },
    "C11": {
        "level": "exploration",
        "quick_runs": 30000, "thorough_runs": 1500000, "chunk": 1000,
        "thorough_params": {"txs": 40, "ops": 20},
        "nontrivial_stat": "probe.model_nonempty",
        "rule": "one run = a generated history on the real ldb wallet database over the simulated disk: write "
                "transactions (create/delete nested buckets, put, delete, clear, point/prefix reads and bucket "
                "listings inside the transaction) ending in commit, rollback, an error returned from the Update closure, "
                "or a process crash inside a storage write of the commit (torn write, reopen from the crash image); "
                "clean close/reopen; read-only range, prefix and seek iteration; a reader that sees only committed data "
                "while a write transaction is open. Keys are built from parts that mimic the path separator, the depth "
                "digits, the bucket-index prefix, 0x00 and 0xff; keys are reused so delete/re-put/read orders on one key "
                "are common; 30% of runs use a 2 KiB write buffer so memtable flush and compaction run. Oracle: "
                "operation-by-operation equality with an in-memory reference model; after a crash the store equals the "
                "state before or after the in-flight commit. Non-trivial = the committed model ended non-empty.",
    },
    "C09": {
        "level": "exploration",
        "quick_runs": 4000, "thorough_runs": 120000, "chunk": 125,
        "thorough_params": {"ops": 100, "maxdepth": 8},
        "nontrivial_stat": "check.pending_global.nonempty",
        "rule": "one run = 1-2 wallets following a generated chain (mining with all payment kinds, forks of depth 1..D applied step by step, unconfirmed announcements incl. chains and conflicts, new addresses) with schedule-controlled delivery; at every quiescent point with all tips delivered the wallet is compared with the ledger model of the best chain and  the pending-set invariants are evaluated: the wallet's pending set (dumped through the store read API for "
                "every transaction the harness ever produced that is not on the best chain) contains no confirmed "
                "transaction, no transaction spending a wallet coin that a confirmed transaction spends, no orphan of a "
                "vanished parent; every pending transaction reads back to the identical transaction; a wallet coin is "
                "reported spent_by_unmined exactly when a pending transaction spends it; a relevant transaction announced "
                "while the wallet was idle and in sync must be pending until it confirms or is conflicted (also after its "
                "block is reorganised away). Non-trivial = a check with a non-empty pending set.",
    },
    "C10": {
        "level": "exploration",
        "quick_runs": 3000, "thorough_runs": 100000, "chunk": 100,
        "thorough_params": {"ops": 100, "maxdepth": 8},
        "nontrivial_stat": "check.games.nonempty",
        "rule": "one run = 1-2 wallets following a generated chain (mining with all payment kinds, forks of depth 1..D applied step by step, unconfirmed announcements incl. chains and conflicts, new addresses) with schedule-controlled delivery; at every quiescent point with all tips delivered the wallet is compared with the ledger model of the best chain and  the staking and binding histories (with and without withdrawn entries) must equal the model's deposits "
                "(amount, address / binding target, frozen period, height, withdrawn exactly while a best-chain transaction "
                "spends them); lock knobs are small (frozen period 2-4, binding lock 2-6, warm-up height 3-12) and the run ends "
                "with six single-block steps so every lock boundary is observed at h-1, h, h+1 through the withdrawable "
                "balances; withdrawals built through the explicit-input API must carry exactly the block-relative "
                "sequence consensus requires. Non-trivial = a comparison with at least one deposit.",
    },
    "C12": {
        "level": "exploration",
        "quick_runs": 3000, "thorough_runs": 100000, "chunk": 100,
        "thorough_params": {"ops": 100, "maxdepth": 8},
        "nontrivial_stat": "check.new_address",
        "rule": "one run = 1-2 wallets following a generated chain (mining with all payment kinds, forks of depth 1..D applied step by step, unconfirmed announcements incl. chains and conflicts, new addresses) with schedule-controlled delivery; at every quiescent point with all tips delivered the wallet is compared with the ledger model of the best chain and  address invariants are evaluated with gap limits 2..7: every NewAddress result is new and equals the "
                "independent key-chain derivation at the next index (standard or staking form); a request is refused "
                "exactly when none of the last gap-limit addresses has chain history; every issued address is listed "
                "in its class with a used flag consistent with payments on the best chain (also after forks that remove "
                "first payments); finally a mnemonic restore on a fresh instance (index hint 0 or random) must find "
                "every issued address that has chain history. Non-trivial = at least one address was issued and checked.",
    },
    "C07": {
        "level": "exploration",
        "quick_runs": 900, "thorough_runs": 30000, "chunk": 30,
        "thorough_params": {"pre": 60, "post": 30, "longpct": 15},
        "nontrivial_stat": "check.restore_equal.nonempty",
        "rule": "one run = instance X follows a generated chain live with 1-2 wallets (payments of all kinds, forks, "
                "address requests with gap limits 3..10; 8% of runs on a pre-mined chain of 1000-2700 blocks so the rescan "
                "spans 2-3 batches); at a seeded moment one wallet is restored into a fresh instance Y from its mnemonic "
                "(index hint right, lower or higher) or from an exported keystore, and the chain keeps moving (blocks and "
                "forks below/above the rescan cursor) while the schedule tape interleaves rescan batches, the "
                "suspend/resume hand-shake and tip deliveries on both instances. Oracle: importing status shown and "
                "UseWallet refused until done; import finished once the chain stands still (fair-drain liveness); the "
                "restored wallet and the original both equal the ledger model; every address that had chain history at the "
                "time of the restore and lies within the reach of the documented gap scan is rediscovered. Non-trivial = "
                "the restored wallet ended with coins.",
    },
    "C08": {
        "level": "exploration",
        "quick_runs": 2500, "thorough_runs": 80000, "chunk": 100,
        "thorough_params": {"pre": 70},
        "nontrivial_stat": "probe.removed_wallet_had_coins",
        "rule": "one run = 2-3 wallets sharing transactions (multi-input sweeps, staking/binding deposits, pending "
                "transactions) over a generated chain with forks; one wallet is removed at a seeded moment: first with a wrong "
                "passphrase (must be refused), then for real, either with the chain standing still or with blocks and "
                "forks arriving between the removal rounds (schedule tape). Oracle after quiescence: the wallet is not "
                "listed; a raw scan of every bucket finds no key containing its id or addresses and no credit value "
                "owned by its script hashes; every other wallet equals the ledger model and, when the chain stood "
                "still, is byte-identical in its API observation; later forks across blocks that held shared "
                "transactions keep the survivors equal to the model; re-importing the mnemonic succeeds and ends "
                "equal to the model. Crash between any two removal commits is enumerated by the C06 check, whose "
                "histories contain removals. Non-trivial = the removed wallet owned coins.",
    },
    "C02": {
        "level": "exploration",
        "quick_runs": 1600, "thorough_runs": 50000, "chunk": 50,
        "thorough_params": {"ops": 80, "manypct": 10},
        "nontrivial_stat": "check.built_tx",
        "rule": "one run = a generated chain history (mining, forks, pending announcements) giving 1-2 wallets coins of all "
                "kinds (4% of runs add ~700 small coins to exceed the standard-size input cap); at quiescent, fully synced "
                "points sequences of AutoCreateRawTransaction / CreateStakingTransaction / CreateBindingTransaction / "
                "CreateRawTransaction (explicit inputs, fee subtraction) requests are issued with drawn targets (small, a "
                "fraction of the funds, around all funds, far too much), user fees, lock times, sender and change "
                "addresses; the fake clock jumps by 1s / 4m59s / 5m / 5m1s / 11m between them (five-minute reservations). "
                "Oracle from the ledger model, the pending set and a harness-side reservation set: ownership, no duplicate "
                "inputs, eligibility under automatic selection (mature, unlocked, not pending-spent, not reserved), exact "
                "requested outputs plus at most one change to the right address, inputs-outputs == reported fee >= user fee "
                "and >= relay minimum for the size after signing with the wallet, fee ceiling, required sequences; "
                "must-succeed / must-fail-with-insufficient-funds outside a stated grey zone. Non-trivial = at least one "
                "transaction was built and checked.",
    },
    "C03": {
        "level": "exploration",
        "quick_runs": 1600, "thorough_runs": 50000, "chunk": 50,
        "thorough_params": {"ops": 80},
        "nontrivial_stat": "check.signed_tx",
        "rule": "one run = a generated chain history as in C02; at quiescent points transactions over the wallet's coins are "
                "assembled by the harness (1-4 inputs across addresses: standard, staking and binding withdrawals with their "
                "sequence values, coinbase, outputs of pending transactions), with all six sighash flags (SINGLE only when "
                "every input has an output), lock times and payloads, and signed in drawn sequences of right-passphrase and "
                "wrong-passphrase attempts (empty, near misses, binary, the public passphrase). Oracle: right passphrase "
                "=> success, identical transaction id and non-witness fields, every input passes an independent run of "
                "the consensus script engine against the output it spends, the redeem script carries the key of the "
                "independently derived address; any other passphrase => error and no bytes, also right after a successful "
                "unlock. Non-trivial = at least one signed transaction verified.",
    },
    "C04": {
        "level": "exploration",
        "quick_runs": 1500, "thorough_runs": 40000, "chunk": 50,
        "thorough_params": {"ops": 50},
        "nontrivial_stat": "check.key_matches_address",
        "rule": "one run = 2-3 wallet instances with separate simulated disks on one node; a generated history of create "
                "(all five entropy sizes) / new address of both classes (from public material while locked, from private "
                "material after an unlock) / key check / export + import keystore on another instance / import mnemonic "
                "with the matching index hint / reveal mnemonic / wrong-passphrase export, removal and signing / clean "
                "restart / crash-restart / public-passphrase change followed by a restart / mining. Oracle: the wallet id "
                "and the address at every index equal one independent BIP-39/BIP-32 derivation (btcd-compatible mode where "
                "the wallet's derivation deviates, see DESIGN) on every instance; for every issued address SignHash with the "
                "right passphrase yields a signature that verifies under the public key the address commits to. "
                "Non-trivial = at least one key/address check ran.",
    },
    "C05": {
        "level": "exploration",
        "quick_runs": 1500, "thorough_runs": 40000, "chunk": 50,
        "thorough_params": {"ops": 50},
        "nontrivial_stat": "check.disk_scan",
        "rule": "same histories as C04 with the complete write tape of every simulated disk kept (every byte ever written to "
                "any journal, table or manifest file, including superseded ones). After every operation the tapes, every "
                "exported keystore and every error string are searched for each secret the harness can derive: the "
                "mnemonic and word runs of it, entropy, BIP-39 seed, the private scalars of the master/purpose/coin/"
                "account/branch keys and of every issued address (raw and hex), both passphrases. Wrong passphrases (empty, "
                "near misses, case changes, binary, over-long, the public passphrase) on reveal, export, removal and "
                "signing, also directly after a successful unlock, must be refused with an error, return no data and "
                "write nothing. Non-trivial = at least one disk scan ran.",
    },
    "C18": {
        "level": "fault_enumeration",
        "quick_runs": 48, "thorough_runs": 1500, "chunk": 1,
        "enum": "failj:calls:250,failj:calls:250:sticky=1,failj:calls:250:disk=1",
        "thorough_params": {"pre": 25},
        "nontrivial_stat": "probe.fault_fired",
        "rule": "one sampled history = 2-3 wallets, a short generated chain history, then ONE focus operation (block "
                "connect, reorganisation, new address, create wallet, remove wallet incl. its rounds, import mnemonic / "
                "import keystore incl. the rescan) executed at a quiescent point. The fault-free twin counts the wallet-db "
                "calls (begin, get/prefix-get, put, delete, iterator step, commit) made while the operation and the "
                "background work it triggers run; then for EVERY call index j the same tapes are re-run with call j "
                "returning an error, once as a single fault and once sticky (every later call fails too until the "
                "operation is over). Oracle: no panic; a deliberate process end (logging FATAL) while the injected fault fires "
                "counts as fail-stop: the process is restarted on what was committed and the same end check applies. "
                "After storage works again an operation that "
                "reported failure is repeated and must succeed; the chain moves on and at quiescence the wallet set, "
                "task states and every wallet's ledger equal the fault-free behaviour (reference model), and the next "
                "address request continues the index sequence without a skipped or duplicated index. Non-trivial = the "
                "injected fault actually fired.",
    },
    "C19": {
        "level": "exploration",
        "quick_runs": 2400, "thorough_runs": 120000, "chunk": 50,
        "thorough_params": {"steps": 150, "pre": 30},
        "nontrivial_stat": "probe.request_answered",
        "rule": "one run = an instance with 0-3 wallets following a generated chain (payments of all kinds, NullData outputs, "
                "forks, unconfirmed transactions) while a client issues 10-70 requests to the real api.APIServer methods "
                "(29 methods; gRPC transport not involved) and to 10 WalletManager methods below the API layer (only with argument "
                "shapes the API layer can pass on) interleaved with handler/worker steps, so requests meet the wallet "
                "in every state: nothing selected, importing, being removed, coins pending or spent. Each argument is drawn "
                "either from fitting material of the world (addresses of the selected/another wallet/strangers, staking and "
                "binding forms, transaction ids and outpoints of unspent/spent/pending/foreign outputs, drafts and signed "
                "transactions returned earlier, crafted transactions, right passphrases, exported keystores, mnemonics) or "
                "from boundary/malformed shapes (per-request mischief level 0-60%). Oracle: no panic in the request or in the "
                "follower goroutines, every request returns a response or an error, none exceeds a work budget of 60000 "
                "storage/chain-node queries (worlds have <100 blocks), the handler and worker stay alive and every chain event "
                "is processed at fair quiescence. Non-trivial = at least one request was answered (not refused).",
    },
    "C17": {
        "level": "exploration",
        "race": True, "race_jobs_every": 3, "race_modes": [1, 1, 3, 1, 5, 1, 6, 1, 4],
        "quick_runs": 1800, "thorough_runs": 90000, "chunk": 50,
        "thorough_params": {"pre": 40, "rounds": 10},
        "nontrivial_stat": "op.query,probe.concurrent_clients,op.mine",
        "rule": "two kinds of runs. (a) schedule part (2 of 3 jobs): a wallet follows a generated chain; 1-5 times per run "
                "1-4 chain events (blocks, reorganisations) are queued and ONE query (WalletBalance, AddressBalance, GetUtxo, "
                "AutoCreateRawTransaction, UseWallet) starts on a goroutine that parks before every database read of its "
                "read transactions (begin, get, prefix scan, iterator seek/next); the schedule tape decides after each read "
                "whether the handler commits next. The wallet's synced block after every commit during the query is "
                "recorded; the answer must equal the reference ledger's view at ONE of those blocks (balances incl. "
                "spendable/withdrawable parts, per-address balances, the coin list; for coin selection: every input an "
                "unspent, standard, mature coin at that block, none twice). (b) memory part (every 3rd job, binary built "
                "with the Go race detector): API requests of all 29 methods (one in flight at a time), the handler and the "
                "worker (imports, removals) are interleaved by the schedule tape; the simulator's own hand-offs are hidden "
                "from the detector (runtime.RaceDisable around them), so the detector reports every pair of accesses of "
                "wallet memory that the wallet's own synchronisation does not order in the executed schedule - "
                "deterministically per tape, whether or not they were simultaneous in real time. Reports whose "
                "access belongs to the simulator are ignored. Half of the race-detector jobs run this request workload, the others "
                "run the workloads of C20 (stop placement), C08 (removal), C01 (chain following) and C07 (restore while the "
                "chain moves) under the race-detector build with their own oracles on. Non-trivial = a query ran / a "
                "concurrent round ran / another property's workload ran under the detector.",
    },
}

# Rare conditions each check is expected to reach in a complete run of its quick tier (a stat that stays at zero means
# the workload or the fault mix has gone blind there; the driver prints SELF-ASSESSMENT lines and records them in the
# evidence - never a verdict, never an exit code).
EXPECTED = {
    "C01": ["probe.tip_queued_during_start", "op.restart_moving", "op.fork.depth3", "probe.notification_overtook_other_queue"],
    "C02": ["probe.explicit_input_of_another_local_wallet", "probe.explicit_input_of_nobody_here", "probe.multi_input_tx_built",
            "probe.change_output_built", "probe.fee_shared_by_several_recipients", "probe.insufficient_funds_reported"],
    "C03": ["probe.sign_staking_withdrawal_input", "probe.sign_binding_withdrawal_input", "probe.signing_spend_of_pending_output",
            "probe.concurrent_signers"],
    "C04": ["check.internal_addresses_match_derivation", "check.internal_key_matches_address", "op.restart"],
    "C05": ["check.duplicate_import_refused", "check.disk_scan", "probe.wrong_pass_after_unlock"],
    "C06": ["fault.crash", "fault.torn_write", "probe.four_tasks_unfinished", "probe.recovery_while_chain_moves",
            "probe.inflight_create_survived", "op.remove_wallet", "op.import_mnemonic"],
    "C07": ["probe.chain_moved_while_importing", "probe.reorg_during_or_after_rescan", "probe.restart_while_importing"],
    "C08": ["probe.removed_wallet_had_coins", "probe.reorg_during_removal", "check.survivor_unchanged", "check.reimport",
            "probe.sign_staking_withdrawal_input"],
    "C09": ["probe.pending_expected", "probe.pending_expected_after_second_announcement", "probe.notification_overtook_other_queue",
            "op.restart_moving"],
    "C10": ["check.games.nonempty", "op.restart_moving", "gen.two_deposits_in_one_tx"],
    "C12": ["check.new_address", "op.restart_moving"],
    "C20": ["probe.stop_issued_while_task_in_flight", "probe.stop_issued_with_tips_queued", "check.stop_returned", "check.liveness"],
}

